"""Rank-deficient (positive SEMI-definite) covariance, default svd_conditioning=0:
rounding-level singular values of C_off,off are inverted, R is garbage / NaN."""
import os, sys, warnings
sys.path.insert(0, os.getcwd())   # run from the worktree: import its aotools
import numpy as np
from aotools.turbulence.slopecovariance import create_tomographic_covariance_reconstructor as ctr
def verdict(R, C, n_on, label):
    """normal equations R*C_off = C_on,off (all non-zero singular values retained at conditioning 0)
    and expected residual against the optimum"""
    n = 2 * n_on
    Coff = np.asarray(C[n:, n:], float); Con = np.asarray(C[:n, n:], float); Coo = np.asarray(C[:n, :n], float)
    Rf = np.asarray(R, float)
    bad = False
    if not np.isfinite(Rf).all():
        print(label, ": reconstructor contains", int((~np.isfinite(Rf)).sum()), "non-finite entries of", Rf.size)
        return True
    ne = abs(Rf @ Coff - Con).max() / abs(Con).max()
    Ropt = Con @ np.linalg.pinv(Coff, rcond=1e-6, hermitian=True)
    res = np.trace(Coo - 2 * Rf @ Con.T + Rf @ Coff @ Rf.T)
    resopt = np.trace(Coo - 2 * Ropt @ Con.T + Ropt @ Coff @ Ropt.T)
    print(label, ": max|R| = %.3g, normal-equation error |R C_off - C_on,off|/|C_on,off| = %.3g" % (abs(Rf).max(), ne))
    print(label, ": E|s_on - R s_off|^2 = %.3g, optimum = %.3g, total on-axis variance = %.3g" % (res, resopt, np.trace(Coo)))
    if ne > 1e-3 or abs(res - resopt) > 1e-3 * np.trace(Coo):
        bad = True
    return bad
warnings.simplefilter("ignore")
bad = False
rng = np.random.default_rng(1)
# (a) three identical sensors of 2 sub-apertures: C = [[A,A,A],[A,A,A],[A,A,A]], exact minimiser R = [I 0] (or [I/2 I/2])
A = rng.normal(size=(4, 4)); A = A @ A.T
C = np.block([[A, A, A], [A, A, A], [A, A, A]])
bad |= verdict(ctr(C, 2), C, 2, "(a) float64, duplicated sensors")
bad |= verdict(ctr(C.astype("float32"), 2, 0), C.astype("float32"), 2, "(a) float32, duplicated sensors")
# (b) generic PSD matrix of rank 3 < size
B = rng.normal(size=(12, 3)); C = B @ B.T
bad |= verdict(ctr(C, 2, 0), C, 2, "(b) float64, rank 3 of 12")
# (c) one off-axis sensor with zero (co)variance: zero rows and columns in a PSD matrix
A = rng.normal(size=(6, 6)); A = A @ A.T
C = np.zeros((10, 10)); idx = [0, 1, 2, 3, 6, 7]; C[np.ix_(idx, idx)] = A
C *= 1e-11   # size of slope covariances in rad^2 as the builder produces them
bad |= verdict(ctr(C, 1, 0), C, 1, "(c) float64, a dead sensor")
bad |= verdict(ctr(C.astype("float32"), 1, 0), C.astype("float32"), 1, "(c) float32, a dead sensor")
print("DEFECT PRESENT" if bad else "ok")
sys.exit(1 if bad else 0)
