"""End to end: one off-axis laser guide star whose beacon (5 km) lies below every turbulent layer
sees no turbulence (the builder deliberately leaves its blocks zero). Default conditioning: R is all NaN."""
import os, sys, warnings
sys.path.insert(0, os.getcwd())   # run from the worktree: import its aotools
import numpy as np
from aotools.turbulence.slopecovariance import CovarianceMatrix
def verdict(R, C, n_on, label):
    """normal equations R*C_off = C_on,off (all non-zero singular values retained at conditioning 0)
    and expected residual against the optimum"""
    n = 2 * n_on
    Coff = np.asarray(C[n:, n:], float); Con = np.asarray(C[:n, n:], float); Coo = np.asarray(C[:n, :n], float)
    Rf = np.asarray(R, float)
    bad = False
    if not np.isfinite(Rf).all():
        print(label, ": reconstructor contains", int((~np.isfinite(Rf)).sum()), "non-finite entries of", Rf.size)
        return True
    ne = abs(Rf @ Coff - Con).max() / abs(Con).max()
    Ropt = Con @ np.linalg.pinv(Coff, rcond=1e-6, hermitian=True)
    res = np.trace(Coo - 2 * Rf @ Con.T + Rf @ Coff @ Rf.T)
    resopt = np.trace(Coo - 2 * Ropt @ Con.T + Ropt @ Coff @ Ropt.T)
    print(label, ": max|R| = %.3g, normal-equation error |R C_off - C_on,off|/|C_on,off| = %.3g" % (abs(Rf).max(), ne))
    print(label, ": E|s_on - R s_off|^2 = %.3g, optimum = %.3g, total on-axis variance = %.3g" % (res, resopt, np.trace(Coo)))
    if ne > 1e-3 or abs(res - resopt) > 1e-3 * np.trace(Coo):
        bad = True
    return bad
warnings.simplefilter("ignore")
m = np.ones((2, 2))
cm = CovarianceMatrix(4, [m] * 4, 1., np.array([.5] * 4), np.array([0, 0, 5000., 0]),
                      np.array([[0, 0], [0, 0], [-5, 5], [9, 0.]]), np.array([5e-7] * 4),
                      2, np.array([8000., 10000.]), np.array([.1, .2]), np.array([25., 25.]))
C = cm.make_covariance_matrix()
R = cm.make_tomographic_reconstructor()
bad = verdict(R, C, 4, "LGS below all layers")
if not bad:
    E = np.zeros(R.shape); E[:, :8] = np.eye(8)
    print("duplicate clause: max|R - [I 0 0]| = %.3g" % abs(R - E).max()); bad = abs(R - E).max() > 1e-3
print("DEFECT PRESENT" if bad else "ok")
sys.exit(1 if bad else 0)
