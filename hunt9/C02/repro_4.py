"""Outer scale L0 = inf (Kolmogorov limit) in the builder: NaN covariance, LinAlgError in the reconstructor."""
import os, sys, warnings
sys.path.insert(0, os.getcwd())   # run from the worktree: import its aotools
import numpy as np
from aotools.turbulence.slopecovariance import CovarianceMatrix
warnings.simplefilter("ignore")
m = np.ones((2, 2))
cm = CovarianceMatrix(3, [m] * 3, 1., np.array([.5] * 3), np.zeros(3), np.array([[0, 0], [0, 0], [9, 0.]]),
                      np.array([5e-7] * 3), 2, np.array([0., 10000.]), np.array([.1, .2]), np.array([np.inf, np.inf]))
C = cm.make_covariance_matrix()
print("NaN in covariance matrix:", int(np.isnan(C).sum()), "of", C.size)
try:
    R = cm.make_tomographic_reconstructor()
    E = np.zeros(R.shape); E[:, :8] = np.eye(8)
    bad = not np.isfinite(R).all() or abs(R - E).max() > 1e-3
    print("max|R - [I 0]| =", abs(R - E).max())
except Exception as e:
    print("reconstructor raised", type(e).__name__, ":", e); bad = True
print("DEFECT PRESENT" if bad else "ok")
sys.exit(1 if bad else 0)
