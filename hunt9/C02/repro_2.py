"""End to end: on-axis sensor duplicates off-axis sensor 1; geometries in which C_off,off is exactly
rank deficient. Default conditioning. R must be [I 0] / reproduce the duplicated sensor's slopes."""
import os, sys, warnings
sys.path.insert(0, os.getcwd())   # run from the worktree: import its aotools
import numpy as np
from aotools.turbulence.slopecovariance import CovarianceMatrix
def verdict(R, C, n_on, label):
    """normal equations R*C_off = C_on,off (all non-zero singular values retained at conditioning 0)
    and expected residual against the optimum"""
    n = 2 * n_on
    Coff = np.asarray(C[n:, n:], float); Con = np.asarray(C[:n, n:], float); Coo = np.asarray(C[:n, :n], float)
    Rf = np.asarray(R, float)
    bad = False
    if not np.isfinite(Rf).all():
        print(label, ": reconstructor contains", int((~np.isfinite(Rf)).sum()), "non-finite entries of", Rf.size)
        return True
    ne = abs(Rf @ Coff - Con).max() / abs(Con).max()
    Ropt = Con @ np.linalg.pinv(Coff, rcond=1e-6, hermitian=True)
    res = np.trace(Coo - 2 * Rf @ Con.T + Rf @ Coff @ Rf.T)
    resopt = np.trace(Coo - 2 * Ropt @ Con.T + Ropt @ Coff @ Ropt.T)
    print(label, ": max|R| = %.3g, normal-equation error |R C_off - C_on,off|/|C_on,off| = %.3g" % (abs(Rf).max(), ne))
    print(label, ": E|s_on - R s_off|^2 = %.3g, optimum = %.3g, total on-axis variance = %.3g" % (res, resopt, np.trace(Coo)))
    if ne > 1e-3 or abs(res - resopt) > 1e-3 * np.trace(Coo):
        bad = True
    return bad
warnings.simplefilter("ignore")
m = np.ones((2, 2))
def run(label, pos, h, r0, L0, gsalt=(0, 0, 0)):
    cm = CovarianceMatrix(3, [m] * 3, 1., np.array([.5] * 3), np.array(gsalt, float), np.array(pos, float),
                          np.array([5e-7] * 3), len(h), np.array(h, float), np.array(r0, float), np.array(L0, float))
    C = cm.make_covariance_matrix()
    R = cm.make_tomographic_reconstructor()          # default svd_conditioning = 0
    bad = verdict(R, C, 4, label)
    if np.isfinite(R).all():
        # slopes that can actually occur (in the range of C_off,off); the duplicated sensor's slopes come first
        Coff = np.asarray(C[8:, 8:], float)
        s_off = Coff @ np.random.default_rng(0).normal(size=16); s_off /= abs(s_off).max()
        s = s_off[:8]
        err = abs(R @ s_off - s).max() / abs(s).max()
        print(label, ": |R s_off - s_dup| / |s_dup| = %.3g" % err)
        bad |= err > 1e-3
    return bad
bad = False
# single ground layer: every direction sees the same turbulence
bad |= run("ground layer only", [[0, 0], [0, 0], [10, 0]], [0.], [.1], [25.])
# single layer at the altitude where the 10 arcsec offset is exactly one sub-aperture pitch (0.5 m)
h = 0.5 / (10 * np.pi / 180 / 3600)
bad |= run("offset = one pitch", [[0, 0], [0, 0], [10, 0]], [h], [.1], [25.])
# two layers, the second off-axis sensor in the same direction too (all sensors equal)
bad |= run("all directions equal", [[3, 4], [3, 4], [3, 4]], [0., 9000.], [.1, .2], [25., 25.])
print("DEFECT PRESENT" if bad else "ok")
sys.exit(1 if bad else 0)
