"""C18 low-confidence candidate 1: optimal_grouping on a profile listed top-down
(descending heights) returns heights that are NOT in increasing order."""
import os, sys
sys.path.insert(0, os.getcwd())
import numpy as np
from aotools.turbulence.profile_compression import optimal_grouping

h = np.array([15000., 10000., 5000., 1000., 0.])     # valid profile, listed top-down
p = np.array([1., 2., 3., 4., 5.]) * 1e-14
np.random.seed(0)
hL, pL = optimal_grouping(5, 2, h, p)
print("heights out:", hL, " cn2 out:", pL)
increasing = bool((np.diff(hL) >= 0).all())
print("returned heights in increasing order:", increasing)
# same profile listed bottom-up, for comparison
hU, pU = optimal_grouping(5, 2, h[::-1].copy(), p[::-1].copy())
print("bottom-up listing gives:", hU, pU)
sys.exit(0 if increasing else 1)
