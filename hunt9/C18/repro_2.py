"""C18 low-confidence candidate 2: optimal_grouping with R=0 and N not divisible by L
ends with a cost above that of the equal split 3,3,2 (numpy.array_split); its own
'(approx) equal' start is 2,3,3 and the descent is stuck there."""
import os, sys
sys.path.insert(0, os.getcwd())
import numpy as np
from aotools.turbulence import profile_compression as pc

h = np.linspace(0., 20000., 8)
p = np.array([0.88532375, 0.46237291, 0.30900497, 0.16358435,
              0.19134689, 0.85950616, 0.90161467, 0.98439594])
L = 3
hL, pL = pc.optimal_grouping(0, L, h, p)          # R = 0: no random restarts
# cost of the returned grouping (recover the contiguous groups from the sums)
N = len(h)
import itertools
cost_out = None
for sp in itertools.combinations(range(N - 1), L - 1):
    g = pc._convert_splits_to_groups(np.array(sp, dtype=int), N)
    if np.allclose([p[x].sum() for x in g], pL, rtol=1e-12, atol=0):
        c, hm = pc._G(g, h, p, return_hmin=True)
        if np.array_equal(hm, hL):
            cost_out = c if cost_out is None else min(cost_out, c)
eq = [np.asarray(a) for a in np.array_split(np.arange(N), L)]   # sizes 3,3,2
cost_eq = pc._G(eq, h, p)
print("returned:", hL, pL)
print("cost of returned grouping :", cost_out)
print("cost of equal split 3,3,2 :", cost_eq)
bad = cost_out is None or cost_out > cost_eq * (1 + 1e-12)
print("worse than an equal split:", bad)
sys.exit(1 if bad else 0)
