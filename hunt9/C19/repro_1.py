"""plot_tps fails on the documented 2-D slope array (nFrames, nCentroids)
and on any leading shape other than exactly one leading axis."""
import sys, os
sys.path.insert(0, os.getcwd())  # run from the worktree root
import matplotlib
matplotlib.use("Agg")
import numpy
from matplotlib import pyplot
pyplot.show = lambda *a, **k: None
from aotools.turbulence import temporal_ps

rng = numpy.random.default_rng(0)
bad = 0
for shape in [(16, 4), (2, 16, 4), (3, 2, 16, 4)]:
    data = rng.standard_normal(shape)
    ref, ref_err = temporal_ps.calc_slope_temporalps(data)
    ref_axis = numpy.arange(shape[-2] // 2) * 100. / shape[-2]
    try:
        tps, err, axis = temporal_ps.plot_tps(data, 100.)
        ok = (numpy.allclose(tps, ref) and numpy.allclose(axis, ref_axis))
        print(shape, "returned", tps.shape, axis.shape, "OK" if ok else "WRONG VALUES")
        bad += not ok
    except Exception as e:
        print(shape, "FAILED:", type(e).__name__, e)
        bad += 1
    pyplot.close("all")
print("DEFECT PRESENT" if bad else "no defect")
sys.exit(1 if bad else 0)
