"""Odd frame counts: the highest positive-frequency bin (n-1)/2 is dropped from
both the spectrum and the frequency axis; a single frame gives an empty result."""
import sys, os
sys.path.insert(0, os.getcwd())  # run from the worktree root
import numpy
from aotools.turbulence import temporal_ps

bad = 0
frame_rate = 90.
for n in [1, 3, 9, 101]:
    k = (n - 1) // 2                       # highest non-redundant bin of an odd-length FFT
    t = numpy.arange(n)
    slopes = numpy.cos(2 * numpy.pi * k * t / n)[:, None] * numpy.ones((1, 6)) + (n == 1)
    tps, err = temporal_ps.calc_slope_temporalps(slopes)
    axis = temporal_ps.get_tps_time_axis(frame_rate, n)
    f_true = k * frame_rate / n            # a positive frequency: numpy.fft.fftfreq(n, 1/fr)[k]
    full = (abs(numpy.fft.fft(slopes, axis=0)) ** 2).mean(-1)
    present = axis.size > 0 and numpy.isclose(axis, f_true).any()
    peak_ok = present and numpy.isclose(axis[numpy.argmax(tps)], f_true)
    # one-sided Parseval for odd n: P[0] + 2 sum(P[1:]) == n * sum(x^2)
    parseval_ok = tps.size > 0 and numpy.isclose(tps[0] + 2 * tps[1:].sum(), n * (slopes ** 2).sum(0).mean())
    print("n_frames=%d: sinusoid/DC in bin %d (%.3f Hz); full |FFT|^2 at that bin = %.3f" % (n, k, f_true, full[k]))
    print("   tps shape %s, axis %s" % (tps.shape, axis[-3:]))
    print("   bin on axis: %s   peak found there: %s   one-sided Parseval: %s" % (present, peak_ok, parseval_ok))
    bad += not (present and peak_ok and parseval_ok)
print("DEFECT PRESENT" if bad else "no defect")
sys.exit(1 if bad else 0)
