"""calculate_structure_function silently drops valid lags: the cap
int(N/step - 1) counts lags 1..xm (YAO, 1-based) but the Python vector is
0-based (lag 0 at index 0), so up to two well-defined lags are lost and the
result is shorter than the requested nbOfPoint; a 1-row phase gives [] not [0]."""
import sys, os
sys.path.insert(0, os.getcwd())  # run from the worktree root
import numpy
from aotools.turbulence.slopecovariance import calculate_structure_function

def ramp(n, m=3, a=1.0):
    return a * numpy.outer(numpy.arange(n, dtype=float), numpy.ones(m))

bad = 0
#            N  nbOfPoint step
for N, nb, step in [(10, 10, 1), (10, 2, 5), (10, 4, 3), (2, 2, 1), (1, 1, 1), (10, 1, 10)]:
    n_valid = (N - 1) // step + 1            # lags j with j*step <= N-1, incl. j=0
    want = min(nb, n_valid)
    expected = (numpy.arange(want) * step) ** 2.   # ramp of slope 1: a^2 (j step)^2
    try:
        sf = calculate_structure_function(ramp(N), nbOfPoint=nb, step=step)
        ok = sf.shape == expected.shape and numpy.allclose(sf, expected)
        print("N=%d nbOfPoint=%d step=%d -> %s   expected %s   %s" % (N, nb, step, sf, expected, "OK" if ok else "WRONG"))
    except Exception as e:
        ok = False
        print("N=%d nbOfPoint=%d step=%d FAILED %s: %s" % (N, nb, step, type(e).__name__, e))
    bad += not ok
print("DEFECT PRESENT" if bad else "no defect")
sys.exit(1 if bad else 0)
