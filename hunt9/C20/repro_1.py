"""C20 / batch clause: centre_of_gravity(stack, threshold=t) != per-frame centre_of_gravity(frame, threshold=t)."""
import os, sys, warnings
sys.path.insert(0, os.getcwd())
import numpy as np
import aotools

warnings.simplefilter("ignore")
bad = False

# three 3x3 frames, plain floats, threshold 0.5 (a mid-range, documented use)
stack = np.array([[[0, 1, 0], [2, 10, 6], [0, 3, 0]],
                  [[1, 1, 1], [1, 8, 1], [1, 1, 7]],
                  [[9, 0, 0], [0, 5, 0], [0, 0, 6]]], dtype=float)
for thr in (0.5, 1.0):
    batch = aotools.centre_of_gravity(stack, threshold=thr)                       # (2, 3)
    single = np.array([aotools.centre_of_gravity(f, threshold=thr) for f in stack]).T
    same = np.allclose(batch, single, equal_nan=True)
    print("threshold = %s" % thr)
    print("  stack call      :", batch.tolist())
    print("  frame by frame  :", single.tolist())
    print("  equal           :", same)
    bad |= not same

# the same frame as a 2-d image and as a stack of one
f = stack[0]
a = aotools.centre_of_gravity(f, threshold=0.5)
b = aotools.centre_of_gravity(f[None], threshold=0.5)[:, 0]
print("one frame, 2-d:", a.tolist(), " as (1, y, x):", b.tolist())
bad |= not np.allclose(a, b, equal_nan=True)

# consequence at the documented limit of correlation_centroid ("1 = brightest pixel")
im = np.zeros((2, 6, 6)); im[0, 2, 3] = 1; im[1, 4, 1] = 1
ref = np.zeros((6, 6)); ref[3, 3] = 1
c = aotools.correlation_centroid(im, ref, threshold=1.0)
print("correlation_centroid(threshold=1.0) ->", c.tolist())
print("  (informational: documented as '1 = brightest pixel'; NaN comes from the 2-d branch above)")

print("DEFECT PRESENT" if bad else "ok")
sys.exit(1 if bad else 0)
