"""C20 / batch clause: plot_tps works for a stack (k, nFrames, nCentroids) but not for one data set (nFrames, nCentroids)."""
import os, sys
sys.path.insert(0, os.getcwd())
import matplotlib
matplotlib.use("Agg")
import numpy as np
from aotools.turbulence import temporal_ps as tp

rng = np.random.default_rng(0)
data = rng.normal(size=(3, 64, 10))          # 3 data sets, 64 frames, 10 centroids
bad = False

tps, err, t = tp.plot_tps(data, 100.)
print("stack (3, 64, 10)      ->", tps.shape, err.shape, t.shape)

for name, d in (("single (64, 10)", data[0]), ("two leading axes (2, 3, 64, 10)", np.stack([data, data]))):
    ref = tp.calc_slope_temporalps(d)        # the non-plotting function accepts the same input
    try:
        out = tp.plot_tps(d, 100.)
        ok = np.allclose(out[0], ref[0]) and np.allclose(out[1], ref[1])
        print(name, "->", out[0].shape, "equal to calc_slope_temporalps:", ok)
        bad |= not ok
    except Exception as e:
        print(name, "-> raises %s: %s" % (type(e).__name__, e))
        bad = True

print("DEFECT PRESENT" if bad else "ok")
sys.exit(1 if bad else 0)
