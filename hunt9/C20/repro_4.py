"""C20 (weak): results that ARE the argument / the internal state, so later in-place use changes them."""
import os, sys
sys.path.insert(0, os.getcwd())
import numpy as np
from aotools import opticalpropagation as op
from aotools.turbulence.infinitephasescreen import PhaseScreenVonKarman

bad = False
U = np.ones((8, 8), dtype=complex)
out = op.angularSpectrum(U, 500e-9, 1e-3, 1e-3, 0.)
print("angularSpectrum(z=0): result is the argument object:", out is U)
out0 = op.angularSpectrum(np.ones((8, 8)), 500e-9, 1e-3, 1e-3, 0.)
out1 = op.angularSpectrum(np.ones((8, 8)), 500e-9, 1e-3, 1e-3, 1e-9)
print("  dtype for z = 0:", out0.dtype, " for z = 1e-9:", out1.dtype)
out *= 0                                    # e.g. applying a mask to the propagated field
print("  argument after `out *= 0`:", "changed" if not U.any() else "unchanged")
bad |= out is U or np.shares_memory(out, U)

a = PhaseScreenVonKarman(16, 0.1, 0.2, 20., random_seed=3)
b = PhaseScreenVonKarman(16, 0.1, 0.2, 20., random_seed=3)
sa = a.add_row(); b.add_row()
sa *= 0                                     # user works in place on the screen he was handed
same = np.array_equal(a.add_row()[0], b.add_row()[0])
print("PhaseScreenVonKarman.add_row(): next row unaffected by in-place use of the returned screen:", same)
bad |= not same

print("DEFECT PRESENT" if bad else "ok")
sys.exit(1 if bad else 0)
