"""C20 / hidden-state clause: optimal_grouping draws from numpy's GLOBAL random state."""
import os, sys
sys.path.insert(0, os.getcwd())
import numpy as np
from aotools.turbulence.profile_compression import optimal_grouping

h = np.arange(6) * 1000.
p = np.array([1., 7., 7., 7., 8., 8.])
snap = (h.copy(), p.copy())

results = {}
for s in range(8):
    np.random.seed(s)              # stands for "whatever other code did with numpy.random before"
    hh, cc = optimal_grouping(1, 3, h, p)
    results.setdefault((tuple(hh.tolist()), tuple(cc.tolist())), []).append(s)
for k, v in results.items():
    print("global seeds %s -> heights %s cn2 %s" % (v, k[0], k[1]))
nondeterministic = len(results) > 1

# unseeded: repeated equal calls in one process
seen = set()
for i in range(40):
    hh, cc = optimal_grouping(1, 3, h, p)
    seen.add((tuple(hh.tolist()), tuple(cc.tolist())))
print("distinct results of 40 identical calls:", len(seen))
nondeterministic |= len(seen) > 1

# and the call disturbs the global stream seen by other code
np.random.seed(0); a = np.random.rand()
np.random.seed(0); optimal_grouping(1, 3, h, p); b = np.random.rand()
print("global numpy.random stream untouched by the call:", a == b)
touches_global = a != b

assert np.array_equal(h, snap[0]) and np.array_equal(p, snap[1])
bad = nondeterministic or touches_global
print("DEFECT PRESENT" if bad else "ok")
sys.exit(1 if bad else 0)
