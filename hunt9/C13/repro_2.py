"""C13 candidate 2: thin annuli with mode counts well inside the library's own sampling
criterion (nr*npp >= 15*nmax, no warning printed).
(a) make_kl(220, 16, ri=0.99, nr=40) dies with IndexError inside gkl_fcom
    (the while loop walks past the nth = 5*nr azimuthal kernel orders).
    Same for ri=0.9, nmax=500 (criterion allows 669).
(b) just below that limit the returned variances no longer equal the double pupil
    average -1/2 <K_i D K_i> on the native grid: the kernel FFT on nth=5*nr points aliases.
"""
import sys, os, io, contextlib, warnings
sys.path.insert(0, os.getcwd())
warnings.simplefilter('ignore')
import numpy as np
from aotools.functions import karhunenLoeve as K

bad = False
for nmax, ri, nr in [(220, 0.99, 40), (500, 0.9, 40)]:
    npp = int(2 * np.pi * nr)
    buf = io.StringIO()
    try:
        with contextlib.redirect_stdout(buf):
            kl, var, pup, pb = K.make_kl(nmax, 16, ri=ri, nr=nr)
        print("(a) make_kl(%d,16,ri=%g,nr=%d): ok, shape %s" % (nmax, ri, nr, kl.shape,))
    except IndexError as e:
        print("(a) make_kl(%d,16,ri=%g,nr=%d): IndexError: %s   [nr*npp=%d >= 15*nmax=%d, library printed %r]"
              % (nmax, ri, nr, e, nr * npp, 15 * nmax, buf.getvalue()))
        bad = True
    except Exception as e:
        print("(a) make_kl(%d,16,ri=%g,nr=%d): rejected with %s: %s" % (nmax, ri, nr, type(e).__name__, e))

# (b) brute-force double pupil average on the native polar grid (small case)
nmax, ri, nr = 66, 0.99, 14
buf = io.StringIO()
with contextlib.redirect_stdout(buf):
    kl, var, pup, pb = K.make_kl(nmax, 16, ri=ri, nr=nr)
npp = pb['np']
print("(b) make_kl(%d,16,ri=%g,nr=%d): nr*npp=%d, 15*nmax=%d, library printed %r" % (nmax, ri, nr, nr * npp, 15 * nmax, buf.getvalue()))
P = np.array([K.gkl_sfi(pb, i) for i in range(nmax)]).reshape(nmax, -1)
th = np.arange(npp) * 2 * np.pi / npp
x = (pb['radp'][:, None] * np.cos(th)).ravel(); y = (pb['radp'][:, None] * np.sin(th)).ravel()
sep = 0.5 * np.hypot(x[:, None] - x[None, :], y[:, None] - y[None, :])   # in units of D, D/r0 = 1
C = -0.5 * P @ (6.8839 * sep ** (5. / 3)) @ P.T / P.shape[1] ** 2
G = P @ P.T / P.shape[1]
print("    orthonormality error %.2g, max |offdiag C|/var0 %.2g" % (np.abs(G - np.eye(nmax)).max(), np.abs(C - np.diag(np.diag(C))).max() / var[0]))
rel = np.abs(np.diag(C) - var) / np.diag(C)
for i in [0, 20, 40, 60, 65]:
    print("    mode %2d  returned variance %.4g   -1/2<K D K> %.4g   rel. diff %.3f" % (i, var[i], C[i, i], rel[i]))
if rel.max() > 0.1:
    print("    returned variances differ from the covariance diagonal by up to %.0f %%" % (100 * rel.max()))
    bad = True
if bad:
    print("DEFECT PRESENT")
    sys.exit(1)
print("ok")
sys.exit(0)
