"""C13 candidate 4 (low): radial sampling nr = 1 (a single ring).  gkl_basis handles it
(tip/tilt-like pair cos/sin on one ring, orthonormal, piston free) but make_kl dies in
setpincs with a broadcasting ValueError (np.squeeze removes the length-1 radial axis)."""
import sys, os, io, contextlib, warnings
sys.path.insert(0, os.getcwd())
warnings.simplefilter('ignore')
import numpy as np
from aotools.functions import karhunenLoeve as K
with contextlib.redirect_stdout(io.StringIO()):
    pb = K.gkl_basis(0.3, 1, 6, nfunc=2)
P = np.array([K.gkl_sfi(pb, i) for i in range(2)]).reshape(2, -1)
print("gkl_basis(nr=1, nfunc=2): variances", pb['evals'], "gram", np.round(P @ P.T / P.shape[1], 12).tolist(), "means", P.mean(1))
try:
    with contextlib.redirect_stdout(io.StringIO()):
        kl, var, pup, _ = K.make_kl(2, 16, ri=0.3, nr=1)
except ValueError as e:
    if 'broadcast' in str(e):
        print("make_kl(2, 16, ri=0.3, nr=1) -> ValueError:", e)
        print("DEFECT PRESENT")
        sys.exit(1)
    print("rejected with ValueError:", e); sys.exit(0)
except IndexError as e:
    print("IndexError", e); print("DEFECT PRESENT"); sys.exit(1)
except Exception as e:
    print("rejected with", type(e).__name__, e); sys.exit(0)
print("ok", kl.shape, var)
sys.exit(0)
