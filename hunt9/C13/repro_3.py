"""C13 candidate 3: output size dim = 1 (a 1 x 1 image) raises IndexError from setpincs
(dcar = 0/0 -> NaN -> int cast -> index 9223372036854775807).  The single pixel sits at
r = 0, outside any annulus, so the expected result is kl = zeros((nmax,1,1)), pupil = [[0.]]
(or a deliberate ValueError).  The failing code (pincx/pincy/pincw) is not even used by make_kl."""
import sys, os, io, contextlib, warnings
sys.path.insert(0, os.getcwd())
warnings.simplefilter('ignore')
import numpy as np
from aotools.functions.karhunenLoeve import make_kl
try:
    with contextlib.redirect_stdout(io.StringIO()):
        kl, var, pup, pb = make_kl(3, 1, ri=0.3, nr=10)
except (IndexError, ZeroDivisionError, FloatingPointError) as e:
    print("make_kl(3, 1, ri=0.3, nr=10) ->", type(e).__name__, e)
    print("DEFECT PRESENT")
    sys.exit(1)
except Exception as e:
    print("rejected with", type(e).__name__, e)
    sys.exit(0)
print("kl shape", kl.shape, "pupil", pup, "variances", var)
ok = kl.shape == (3, 1, 1) and pup.shape == (1, 1) and pup[0, 0] == 0 and (kl == 0).all()
print("ok" if ok else "DEFECT PRESENT: wrong result")
sys.exit(0 if ok else 1)
