"""C13 candidate 1: the Cartesian rendering does not wrap in azimuth.
Pixels whose angle lies in the last azimuthal cell, theta in ((npp-1)*2pi/npp, 2pi),
are given the value of the last polar column (cp is clipped to npp-1.001 and
map_coordinates uses mode='nearest') instead of interpolating towards theta=0.
Model-free check: a sin(m theta) mode must be antisymmetric and a cos(m theta) mode
symmetric under y -> -y.  Left of the centre (theta ~ pi) this holds to rounding,
right of the centre (theta ~ 0 / 2pi) it fails by many times the resampling error.
"""
import sys, os, io, contextlib, warnings
sys.path.insert(0, os.getcwd())
warnings.simplefilter('ignore')
import numpy as np
from aotools.functions.karhunenLoeve import make_kl

nmax, dim, ri, nr = 30, 128, 0.2, 40
with contextlib.redirect_stdout(io.StringIO()):
    kl, var, pupil, pb = make_kl(nmax, dim, ri=ri, nr=nr)
npp = pb['np']
# axis 0 is y, axis 1 is x (cp = arctan2(ay, ax), ay varies along axis 0)
h = dim // 2
worst = 0.0
print("mode ord  asym(x<0, theta~pi)  asym(x>0, theta~2pi)   [fraction of mode amplitude]")
for i in range(nmax):
    o = pb['ord'][i]
    if o == 0:
        continue
    sign = +1 if o % 2 == 1 else -1          # cos: symmetric, sin: antisymmetric
    a = kl[i]
    asym = np.abs(a - sign * a[::-1, :]) * pupil * pupil[::-1, :]
    amp = np.abs(a).max()
    left = asym[h - 1:h + 1, :h].max() / amp
    right = asym[h - 1:h + 1, h:].max() / amp
    worst = max(worst, right - left)
    if o % 2 == 0:
        print("%4d %3d   %10.3g          %10.3g" % (i, o, left, right))
print("worst excess asymmetry on the theta -> 2pi side: %.3g of the mode amplitude" % worst)
# linear-interpolation resampling error for the highest azimuthal frequency here
m = (pb['ord'].max() + 1) // 2
print("azimuthal resampling error bound (m*dtheta)^2/8 = %.3g" % ((m * 2 * np.pi / npp) ** 2 / 8))
if worst > 0.02:
    print("DEFECT PRESENT: rows next to the +x axis do not follow the polar function (no azimuthal wrap)")
    sys.exit(1)
print("ok")
sys.exit(0)
