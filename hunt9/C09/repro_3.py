"""C09 candidate 3: rft2 -> irft2 is not an inverse pair when the last axis of
the frame is odd (3x3, 5x5, 4x3, 1x5, batch of 3x3): the result has one column
too few and different values."""
import sys, os, inspect
sys.path.insert(0, os.getcwd())
import numpy as np
import aotools


def inverse(fn, X, df, n_candidates, want_shape):
    first = None
    attempts = [{}]
    for p in list(inspect.signature(fn).parameters)[2:]:
        for n in n_candidates:
            attempts.append({p: n})
    for kw in attempts:
        try:
            y = fn(X, df, **kw)
        except Exception as e:          # noqa
            y = e
        if first is None:
            first = y
        if not isinstance(y, Exception) and np.shape(y) == want_shape:
            return y
    return first


bad = False
rng = np.random.default_rng(0)
delta = 0.3
for shp in [(3, 3), (5, 5), (4, 3), (1, 5), (2, 3, 3)]:
    x = rng.normal(size=shp)
    N = shp[-1]
    df = 1. / (N * delta)
    X = aotools.rft2(x, delta)
    y = inverse(aotools.irft2, X, df, [N, shp[-2:], shp], x.shape)
    if isinstance(y, Exception):
        print("%s: irft2 raised %s: %s" % (shp, type(y).__name__, y)); bad = True
    elif y.shape != x.shape:
        print("%s: irft2(rft2(x)) has shape %s" % (shp, y.shape)); bad = True
    elif not np.allclose(y, x, atol=1e-12):
        print("%s: differs by %g" % (shp, abs(y - x).max())); bad = True
    else:
        print("%s: ok" % (shp,))
# even last axis (any number of rows) is fine
x = rng.normal(size=(3, 4))
assert np.allclose(aotools.irft2(aotools.rft2(x, delta), 1 / (4 * delta)), x)
print("DEFECT PRESENT" if bad else "no defect")
sys.exit(1 if bad else 0)
