"""C09 candidate 2: the real transforms fail on a single sample / single column:
irft(rft(x)) for N = 1, irft2(rft2(x)) for 1 x 1 and N x 1 frames raise
'Invalid number of FFT data points (0)' from inside numpy."""
import sys, os, inspect
sys.path.insert(0, os.getcwd())
import numpy as np
import aotools


def inverse(fn, X, df, n_candidates, want_shape):
    first = None
    attempts = [{}]
    for p in list(inspect.signature(fn).parameters)[2:]:
        for n in n_candidates:
            attempts.append({p: n})
    for kw in attempts:
        try:
            y = fn(X, df, **kw)
        except Exception as e:          # noqa
            y = e
        if first is None:
            first = y
        if not isinstance(y, Exception) and np.shape(y) == want_shape:
            return y
    return first


bad = False
delta = 0.5
cases = [("rft/irft N=1", aotools.rft, aotools.irft, np.array([2.5])),
         ("rft/irft batch (3,1)", aotools.rft, aotools.irft, np.array([[1.], [2.], [3.]])),
         ("rft2/irft2 1x1", aotools.rft2, aotools.irft2, np.array([[2.5]])),
         ("rft2/irft2 4x1", aotools.rft2, aotools.irft2, np.array([[1.], [2.], [-3.], [4.]]))]
for name, fwd, inv, x in cases:
    N = x.shape[-1]
    df = 1. / (N * delta)
    X = fwd(x, delta)
    y = inverse(inv, X, df, [N, x.shape[-2:], x.shape], x.shape)
    if isinstance(y, Exception):
        print("%s: %s: %s" % (name, type(y).__name__, y)); bad = True
    elif y.shape != x.shape or not np.allclose(y, x, atol=1e-12):
        print("%s: got %r expected %r" % (name, y, x)); bad = True
    else:
        print("%s: ok" % name)
# the complex pair handles the same sizes
assert np.allclose(aotools.ift(aotools.ft(np.array([2.5]), delta), 1 / delta), [2.5])
assert np.allclose(aotools.ift2(aotools.ft2(np.array([[2.5]]), delta), 1 / delta), [[2.5]])
print("DEFECT PRESENT" if bad else "no defect")
sys.exit(1 if bad else 0)
