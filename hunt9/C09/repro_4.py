"""C09 candidate 4 (low): the inverse transforms reject plain sequences with an
AttributeError ('list' object has no attribute 'shape') although the forward
transforms accept exactly the same input."""
import sys, os
sys.path.insert(0, os.getcwd())
import numpy as np
import aotools

bad = False
v1 = [1., 2., 3., 4.]
v2 = [[1., 2., 3., 4.], [0., 1., 0., 2.], [1., 1., 1., 1.], [4., 3., 2., 1.]]
h1 = [1., 2., 3.]                      # half spectrum of a length-4 signal
h2 = [[1., 2., 3.]] * 4
for name, fn, arg in [("ft", aotools.ft, v1), ("ft2", aotools.ft2, v2),
                      ("rft", aotools.rft, v1), ("rft2", aotools.rft2, v2),
                      ("ift", aotools.ift, v1), ("ift2", aotools.ift2, v2),
                      ("irft", aotools.irft, h1), ("irft2", aotools.irft2, h2)]:
    try:
        out = fn(arg, 0.25)
        ref = fn(np.array(arg), 0.25)
        ok = np.allclose(out, ref)
        print("%-5s list input: %s" % (name, "ok" if ok else "differs from ndarray input"))
        bad |= not ok
    except AttributeError as e:
        print("%-5s list input: AttributeError: %s" % (name, e)); bad = True
    except Exception as e:
        print("%-5s list input: %s: %s" % (name, type(e).__name__, e))
        # a deliberate TypeError/ValueError with a message would be a rejection
print("DEFECT PRESENT" if bad else "no defect")
sys.exit(1 if bad else 0)
