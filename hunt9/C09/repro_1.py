"""C09 candidate 1: rft -> irft is not an inverse pair for odd lengths N >= 3
(irft always returns 2*(M-1) samples, i.e. N-1 for odd N, with wrong values)."""
import sys, os, inspect
sys.path.insert(0, os.getcwd())
import numpy as np
import aotools


def inverse(fn, X, df, n_candidates, want_shape):
    """Call fn(X, df); if that does not give the wanted shape, try handing the
    original length to any extra parameter a repaired signature may offer."""
    first = None
    attempts = [{}]
    for p in list(inspect.signature(fn).parameters)[2:]:
        for n in n_candidates:
            attempts.append({p: n})
    for kw in attempts:
        try:
            y = fn(X, df, **kw)
        except Exception as e:          # noqa
            y = e
        if first is None:
            first = y
        if not isinstance(y, Exception) and np.shape(y) == want_shape:
            return y
    return first


bad = False
rng = np.random.default_rng(0)
delta = 0.3
for N in (3, 5, 9, 33):
    x = rng.normal(size=N)
    df = 1. / (N * delta)
    X = aotools.rft(x, delta)
    y = inverse(aotools.irft, X, df, [N], x.shape)
    if isinstance(y, Exception):
        print("N=%d: irft raised %s: %s" % (N, type(y).__name__, y)); bad = True
    elif y.shape != x.shape:
        print("N=%d: irft(rft(x)) has shape %s, expected %s" % (N, y.shape, x.shape)); bad = True
    elif not np.allclose(y, x, atol=1e-12):
        print("N=%d: irft(rft(x)) differs from x by %g" % (N, abs(y - x).max())); bad = True
    else:
        print("N=%d: ok" % N)
print("DEFECT PRESENT" if bad else "no defect")
sys.exit(1 if bad else 0)
