"""C05 repro 1: extreme-but-accepted L0/pixel_scale with a small screen gives an
exponentially diverging row recursion (spectral radius > 1) -> screen overflows
to inf/nan.  The constructor's guard (Cholesky failure -> LinAlgError) does not
trigger for small N.  Exit 1 if defect present, 0 otherwise."""
import sys, os; sys.path.insert(0, os.getcwd())
import warnings; warnings.simplefilter("ignore")
import numpy
from aotools.turbulence.infinitephasescreen import PhaseScreenVonKarman, PhaseScreenKolmogorov

def vk_rho(s):
    N = s.nx_size; k = min(s.n_columns, N); n = k * N
    F = numpy.zeros((n, n)); F[:N] = s.A_mat
    if k > 1: F[N:, :n - N] = numpy.eye(n - N)
    return max(abs(numpy.linalg.eigvals(F)))

def ko_rho(s):
    nx = s.nx_size; n = s.stencil_length * nx
    idx = s.stencil_coords[:, 0] * nx + s.stencil_coords[:, 1]
    ref = s.reference_coord[0] * nx + s.reference_coord[1]
    top = numpy.zeros((nx, n)); top[:, idx] = s.A_mat; top[:, ref] += 1 - s.A_mat.sum(1)
    F = numpy.zeros((n, n)); F[:nx] = top; F[nx:, :n - nx] = numpy.eye(n - nx)
    return max(abs(numpy.linalg.eigvals(F)))

cases = [  # (class, N, pixel_scale, r0, L0, rho function); all default keywords
    (PhaseScreenVonKarman, 5, 0.2, 0.16, 1e9, vk_rho),
    (PhaseScreenVonKarman, 9, 0.1, 0.16, 2e8, vk_rho),
    (PhaseScreenVonKarman, 3, 0.25, 0.16, 2e9, vk_rho),
    (PhaseScreenKolmogorov, 3, 0.1, 0.16, 5e9, ko_rho),
]
bad = 0
for cls, N, ps, r0, L0, rf in cases:
    tag = "%s(N=%d, pixel_scale=%g, r0=%g, L0=%g)" % (cls.__name__, N, ps, r0, L0)
    try:
        s = cls(N, ps, r0, L0, random_seed=1)
    except numpy.linalg.LinAlgError as e:
        print(tag, "-> deliberately rejected:", e); continue
    rho = rf(s)
    start = abs(s.scrn).max()
    blew = None
    for i in range(1, 20001):
        s.add_row()
        if not numpy.isfinite(s.scrn).all():
            blew = i; break
    peak = numpy.nanmax(numpy.abs(numpy.where(numpy.isfinite(s.scrn), s.scrn, 0)))
    print("%s accepted: spectral radius - 1 = %.3e, initial max|phase| = %.2f rad, "
          "%s, max finite |phase| = %.2e"
          % (tag, rho - 1, start, ("non-finite values after %d rows" % blew) if blew else "finite for 20000 rows", peak))
    if blew or rho > 1 + 1e-6 or peak > 1e6 * max(start, 1):
        bad += 1
print("DEFECT PRESENT" if bad else "no defect")
sys.exit(1 if bad else 0)
