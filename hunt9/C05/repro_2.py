"""C05 repro 2: PhaseScreenVonKarman with nx_size given as an unsigned numpy
integer (numpy.uint8/16/32/64) dies with an IndexError deep inside
ft_phase_screen (-N wraps around, so arange(-N/2., N/2.) is empty), while signed
numpy integers and PhaseScreenKolmogorov accept the same value.
Exit 1 if defect present, 0 otherwise."""
import sys, os; sys.path.insert(0, os.getcwd())
import warnings; warnings.simplefilter("ignore")
import numpy
from aotools.turbulence.infinitephasescreen import PhaseScreenVonKarman, PhaseScreenKolmogorov

ref = PhaseScreenVonKarman(8, 0.1, 0.16, 20., random_seed=1)
ref.add_row()
bad = 0
for cls in (PhaseScreenVonKarman, PhaseScreenKolmogorov):
    for t in (numpy.int32, numpy.int64, numpy.uint8, numpy.uint16, numpy.uint32, numpy.uint64):
        tag = "%s(nx_size=numpy.%s(8))" % (cls.__name__, t.__name__)
        try:
            s = cls(t(8), 0.1, 0.16, 20., random_seed=1)
            out = s.add_row()
            ok = out.shape == (8, 8) and numpy.isfinite(out).all()
            if cls is PhaseScreenVonKarman:
                ok = ok and numpy.array_equal(out, ref.scrn)
            print(tag, "-> shape", out.shape, "OK" if ok else "WRONG")
            bad += not ok
        except (TypeError, ValueError) as e:
            # a clear message naming the argument would be a deliberate rejection
            msg = str(e)
            deliberate = "nx_size" in msg or "integer" in msg.lower()
            print(tag, "->", type(e).__name__, msg, "(deliberate)" if deliberate else "(not a deliberate rejection)")
            bad += not deliberate
        except Exception as e:
            print(tag, "->", type(e).__name__, e)
            bad += 1
print("DEFECT PRESENT" if bad else "no defect")
sys.exit(1 if bad else 0)
