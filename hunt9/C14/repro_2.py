"""C14 candidate 2: make_subaps_2d on a non-square sub-aperture mask.
Output is allocated as (frames, 2, mask.shape[0], mask.shape[1]) but both loops
run over mask.shape[0]: wide masks silently lose slopes, tall masks IndexError."""
import sys, os
sys.path.insert(0, os.getcwd())
import numpy
from aotools.wfs import make_subaps_2d

bad = False
for shape in [(2, 4), (1, 5), (4, 2), (5, 1)]:
    mask = numpy.ones(shape)
    n = int(mask.sum())
    data = numpy.arange(1, 1 + 3 * 2 * n, dtype=float).reshape(3, 2, n)
    try:
        out = make_subaps_2d(data, mask)
        back = out[:, :, mask == 1]
        ok = numpy.array_equal(back, data)
        print(shape, "-> out", out.shape, "round trip identity:", ok,
              "" if ok else "| row 0 of frame 0, x-slopes: %s" % out[0, 0, 0])
        bad |= not ok
    except Exception as e:
        print(shape, "->", type(e).__name__, e)
        bad = True
print("DEFECT PRESENT" if bad else "ok")
sys.exit(1 if bad else 0)
