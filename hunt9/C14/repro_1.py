"""C14 candidate 1: findActiveSubaps with an empty selection returns shape (0,)
instead of (0, 2), so the documented "(n, 2) array of coords" contract breaks
exactly when n == 0 (threshold above every cell mean / fully opaque mask)."""
import sys, os, warnings
sys.path.insert(0, os.getcwd())
warnings.simplefilter("ignore")
import numpy
from aotools.functions.pupil import circle
from aotools.wfs import findActiveSubaps

bad = False
cases = [
    ("threshold above 1", circle(4, 8), 4, 1.01),
    ("opaque mask", numpy.zeros((8, 8)), 4, 0.5),
    ("single subap rejected", circle(1, 8), 1, 0.5),
]
for label, mask, nsub, thr in cases:
    full = findActiveSubaps(nsub, mask, 0.0)            # non-empty reference
    coords = findActiveSubaps(nsub, mask, thr)
    coords2, fills = findActiveSubaps(nsub, mask, thr, returnFill=True)
    print("%-22s thr=0 -> %s ; thr=%g -> %s ; with fills -> %s %s"
          % (label, full.shape, thr, coords.shape, coords2.shape, fills.shape))
    for c in (coords, coords2):
        if c.shape != (0, 2):
            bad = True
        try:
            c[:, 0]          # what every caller does with an (n, 2) coords array
        except IndexError as e:
            print("   coords[:, 0] ->", type(e).__name__, e)
            bad = True
print("DEFECT PRESENT" if bad else "ok")
sys.exit(1 if bad else 0)
