"""azimuthal_average / encircled_energy on a non-square 2-d image: the masks are
built square from data.shape[0]; a broadcasting ValueError escapes (or, for an
N x 1 image, the mask silently broadcasts and a value is returned)."""
import os, sys
sys.path.insert(0, os.getcwd())  # run from the worktree: cd /tmp/hunt9/C16
import numpy
from aotools.image_processing import psf

bad = 0
for shape in [(8, 12), (12, 8), (8, 1)]:
    d = numpy.ones(shape)
    for f in (psf.azimuthal_average, psf.encircled_energy):
        try:
            r = f(d)
        except Exception as e:  # noqa
            print("%s(ones%s): %s: %s" % (f.__name__, shape, type(e).__name__, e))
            if "broadcast" in str(e) or not isinstance(e, ValueError):
                bad += 1
            continue
        print("%s(ones%s) -> %r" % (f.__name__, shape, r))
        if shape == (8, 1):
            # an 8 x 1 image has no rings of radius 2..4 and no 2.3-pixel-wide half-energy circle
            print("   -> (informational, not counted) value computed from a silently broadcast 8x8 mask")
        elif f is psf.azimuthal_average and not numpy.allclose(r, 1):
            bad += 1
print("DEFECT PRESENT" if bad else "no defect")
sys.exit(1 if bad else 0)
