"""azimuthal_average on an odd-sided image: ring 0 is circle(1,N) - circle(0,N)
and circle(0, odd N) already contains the centre pixel, so the centre pixel
(the PSF peak) is in no ring at all.  (Even N: circle(0,N) is empty, all fine.)"""
import os, sys
sys.path.insert(0, os.getcwd())  # run from the worktree: cd /tmp/hunt9/C16
import numpy
from aotools.image_processing import psf

z = numpy.zeros((7, 7)); z[3, 3] = 1.0          # all the flux in the centre pixel
a = psf.azimuthal_average(z)
print("7x7 image, single bright centre pixel -> azimuthal_average =", a)
N = 33
y, x = numpy.mgrid[:N, :N] - N // 2
g = numpy.exp(-(x ** 2 + y ** 2) / 8.0)          # peak 1.0 on the centre pixel
b = psf.azimuthal_average(g)
print("33x33 gaussian, peak 1.0: profile starts", b[:3], "(pixels at r=0,1,2:", g[16, 16:19], ")")
bad = (a[0] == 0) or (b[0] < g[16, 17] + 1e-12)   # first bin <= value at r=1: r=0 not in it
print("DEFECT PRESENT (centre pixel contributes to no ring)" if bad else "no defect")
sys.exit(1 if bad else 0)
