"""encircled_energy: the normalising total numpy.sum(data) is taken in the
image's own dtype.  float16 image: total overflows to inf -> curve is 0
everywhere, diameter = full image.  float32 image: curve exceeds 1."""
import os, sys, warnings
sys.path.insert(0, os.getcwd())  # run from the worktree: cd /tmp/hunt9/C16
import numpy
from aotools.image_processing import psf

warnings.simplefilter("ignore")
bad = 0
N = 64
y, x = numpy.mgrid[:N, :N] - N / 2 + 0.5
g = 3000 * numpy.exp(-(x ** 2 + y ** 2) / (2 * 3.0 ** 2))   # peak 3000 counts, sigma 3 px
ref = psf.encircled_energy(g)
for dt in (numpy.float16, numpy.float32):
    d = g.astype(dt)
    assert numpy.isfinite(d).all() and d.min() >= 0
    ee50 = psf.encircled_energy(d)
    xi, yi = psf.encircled_energy(d, eeDiameter=False)
    print("%s: ee50d = %r (float64 image: %r); curve max = %.17g; max-1 = %.3g"
          % (dt.__name__, ee50, ref, yi.max(), yi.max() - 1))
    if abs(ee50 - ref) > 0.5:
        print("   -> wrong diameter"); bad += 1
    if yi.max() > 1:
        print("   -> curve exceeds 1"); bad += 1
    if yi.max() < 0.5:
        print("   -> curve never reaches the requested fraction although the PSF is well inside the image"); bad += 1
print("DEFECT PRESENT" if bad else "no defect")
sys.exit(1 if bad else 0)
