"""zoom / zoom_rbs: a square array whose side is <= the spline order cannot be
zoomed at all (not even to its own size); scipy's 'mx must be > kx' escapes."""
import os, sys
sys.path.insert(0, os.getcwd())  # run from the worktree: cd /tmp/hunt9/C16
import numpy
from aotools import interpolation

bad = 0
for N, order in [(2, 3), (3, 3), (1, 1), (5, 5), (3, 5)]:
    a = numpy.arange(N * N, dtype=float).reshape(N, N) ** 2
    for f in (interpolation.zoom, interpolation.zoom_rbs):
        for target in (N, 2 * N - 1 if N > 1 else 3):
            try:
                r = f(a, target, order=order)
            except Exception as e:  # noqa
                print("%s(%dx%d, %d, order=%d): %s: %s" % (f.__name__, N, N, target, order, type(e).__name__, e))
                # a deliberate rejection would come from aotools and name the array size / order
                if "mx must be > kx" in str(e) or not isinstance(e, ValueError):
                    bad += 1
                continue
            step = (target - 1) // (N - 1) if N > 1 else 1
            nodes = r[::step, ::step] if N > 1 else r[:1, :1]
            ok = r.shape == (target, target) and numpy.allclose(nodes, a)
            print("%s(%dx%d, %d, order=%d): shape %s, passes through samples: %s" % (f.__name__, N, N, target, order, r.shape, ok))
            bad += not ok
# default order on a 2x2 / 3x3 map, the everyday call
try:
    interpolation.zoom(numpy.eye(3), 6)
    print("zoom(eye(3), 6): ok")
except Exception as e:
    print("zoom(eye(3), 6) [default order]: %s: %s" % (type(e).__name__, e)); bad += 1
print("DEFECT PRESENT" if bad else "no defect")
sys.exit(1 if bad else 0)
