"""C17 candidate 2: magnitude_to_flux accepts an array of magnitudes and returns
an array of fluxes, but its inverse flux_to_magnitude cannot take that output
(TypeError from float()), not even for a 1-element array; photons_per_band, the
composite, fails the same way for a 1-element magnitude array."""
import sys, os
sys.path.insert(0, os.getcwd())
import numpy as np
from aotools import astronomy as a

bad = 0
for band in a.FLUX_DICTIONARY:
    for mags in (np.array([5.0]), np.array([0.0, 5.0, 12.5])):
        flux = a.magnitude_to_flux(mags, band)            # works, returns array
        try:
            back = a.flux_to_magnitude(flux, band)
            ok = np.shape(back) == mags.shape and np.allclose(back, mags, rtol=0, atol=1e-12)
            if not ok:
                print(band, mags, "->", back, "WRONG"); bad += 1
        except Exception as e:
            if band == 'V':
                print("flux_to_magnitude(magnitude_to_flux(%r, 'V'), 'V') -> %s: %s" % (mags, type(e).__name__, e))
            bad += 1
mask = np.ones((4, 4))
try:
    p = a.photons_per_band(np.array([5.0]), mask, 0.5, 0.01)
    q = a.magnitude_to_flux(np.array([5.0])) * 0.01 * mask.sum() * 0.25
    print("photons_per_band(1-element mag) ->", p, "composition ->", q)
except Exception as e:
    print("photons_per_band(np.array([5.0]), ...) -> %s: %s" % (type(e).__name__, e)); bad += 1
print("scalar round trip still fine:", a.flux_to_magnitude(a.magnitude_to_flux(5.0, 'K'), 'K'))
print("DEFECT PRESENT" if bad else "no defect")
sys.exit(1 if bad else 0)
