"""C17 candidate 1: a single layer given as plain Python numbers crashes the
profile integrators (coherenceTime / isoplanaticAngle / rytov_variance) with
AttributeError: 'float' object has no attribute 'sum', although the same layer
as numpy.float64, 0-d array, 1-element array or (array, python-float) works."""
import sys, os
sys.path.insert(0, os.getcwd())
import numpy as np
from aotools.turbulence import atmos_conversions as ac

cn2, h, v, lam = 1e-13, 5000., 10., 500e-9
r0 = ac.cn2_to_r0(cn2, lam)
bad = 0
cases = [("isoplanaticAngle", ac.isoplanaticAngle, h, 0.314 * r0 / h * 180 * 3600 / np.pi),
         ("coherenceTime", ac.coherenceTime, v, 0.314 * r0 / v),
         ("rytov_variance", ac.rytov_variance, h, None)]
for name, f, x, closed in cases:
    ref = f(np.array([cn2]), np.array([x]), lam)          # 1-element arrays: works
    ref0 = f(np.float64(cn2), np.float64(x), lam)          # numpy scalars: works
    mixed = f(np.array([cn2]), x, lam)                     # array + python float: works
    print("%s: 1-elem arrays %r, numpy scalars %r, mixed %r" % (name, ref, ref0, mixed))
    try:
        got = f(cn2, x, lam)                               # python floats
        ok = np.isclose(got, ref, rtol=1e-12)
        print("   python floats ->", got, "OK" if ok else "MISMATCH")
        if closed is not None:
            print("   ratio to 0.314 r0/x:", got / closed)
        bad += (not ok)
    except Exception as e:
        print("   python floats -> %s: %s" % (type(e).__name__, e))
        bad += 1
# same root cause: h / v as a list when cn2 is an array (the reverse order works)
try:
    a = ac.isoplanaticAngle([1e-13, 2e-13], np.array([5000., 1000.]))
    print("list cn2, array h ->", a)
    b = ac.isoplanaticAngle(np.array([1e-13, 2e-13]), [5000., 1000.])
    print("array cn2, list h ->", b)
except Exception as e:
    print("array cn2, list h -> %s: %s   (informational)" % (type(e).__name__, e))
print("DEFECT PRESENT" if bad else "no defect")
sys.exit(1 if bad else 0)
