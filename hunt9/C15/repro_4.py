"""correlation_centroid, padding=1, even-sided image whose content is wider than half the frame:
zero displacement is not reported at the array centre (odd sides and padding >= 2 are exact)."""
import os, sys, warnings
sys.path.insert(0, os.getcwd())   # run from the worktree root
import numpy
from aotools.image_processing import centroiders as c
warnings.simplefilter("ignore")

bad = False
for n in (6, 7, 8, 9):
    im = numpy.zeros((n, n)); im[1:n-1, 1:n-1] = 1.      # content one pixel away from every border
    for p in (1, 2):
        r = c.correlation_centroid(im, im, padding=p).ravel()
        print("n", n, "padding", p, "->", r, "expected", (n // 2, n // 2))
        if not numpy.allclose(r, n // 2):
            bad = True
print("DEFECT PRESENT" if bad else "ok")
sys.exit(1 if bad else 0)
