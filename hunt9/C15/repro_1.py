"""centre_of_gravity with a threshold: a stack of frames and the same frames alone disagree."""
import os, sys, warnings
sys.path.insert(0, os.getcwd())   # run from the worktree root
import numpy
from aotools.image_processing import centroiders as c
warnings.simplefilter("ignore")

frame = numpy.array([[0., 0., 0., 0.],
                     [0., 4., 2., 0.],
                     [0., 0., 0., 0.]])
bad = False
for thr in (0.25, 0.4):
    alone = c.centre_of_gravity(frame, threshold=thr)
    stacked = c.centre_of_gravity(frame[None], threshold=thr)[:, 0]
    two = c.centre_of_gravity(numpy.array([frame, frame]), threshold=thr)
    print("threshold", thr, "alone", alone, "depth-1 stack", stacked, "depth-2 stack", two.T.tolist())
    if not (numpy.allclose(alone, stacked) and numpy.allclose(two.T, alone)):
        bad = True
# same through the only stack-aware consumer that forwards thresholds
print("DEFECT PRESENT" if bad else "ok")
sys.exit(1 if bad else 0)
