"""brightest_pixel on a stack of depth 0 (no active sub-aperture) fails deep inside; the other centroiders return (2, 0)."""
import os, sys, warnings
sys.path.insert(0, os.getcwd())   # run from the worktree root
import numpy
from aotools.image_processing import centroiders as c
warnings.simplefilter("ignore")

empty = numpy.zeros((0, 4, 4))
print("centre_of_gravity:", c.centre_of_gravity(empty).shape, c.centre_of_gravity(empty, threshold=0.5).shape)
print("correlation_centroid:", c.correlation_centroid(empty, numpy.eye(4)).shape)
print("quadCell:", c.quadCell(numpy.zeros((0, 2, 2))).shape)
bad = False
try:
    r = c.brightest_pixel(empty, 0.5)
    print("brightest_pixel:", r.shape)
    bad = r.shape != (2, 0)
except Exception as e:
    print("brightest_pixel raised", type(e).__name__, e)
    bad = True
print("DEFECT PRESENT" if bad else "ok")
sys.exit(1 if bad else 0)
