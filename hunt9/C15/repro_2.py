"""centre_of_gravity / brightest_pixel on a float16 image whose total flux exceeds 65504."""
import os, sys, warnings
sys.path.insert(0, os.getcwd())   # run from the worktree root
import numpy
from aotools.image_processing import centroiders as c
warnings.simplefilter("ignore")

im = numpy.zeros((16, 16), dtype=numpy.float16)
im[9:12, 4:7] = [[1000, 2000, 1000], [2000, 30000, 2000], [1000, 2000, 1000]]   # every pixel < 65504, sum = 42000
im[3, 12] = 30000                                                              # total 72000 > float16 max
expected = c.centre_of_gravity(im.astype(float))
got = c.centre_of_gravity(im)
got_stack = c.centre_of_gravity(im[None])[:, 0]
got_bp = c.brightest_pixel(im, 0.5)
exp_bp = c.brightest_pixel(im.astype(float), 0.5)
print("float64:", expected, " float16:", got, " float16 stack:", got_stack)
print("brightest_pixel float64:", exp_bp, " float16:", got_bp)
bad = not (numpy.allclose(got, expected, atol=1e-2) and numpy.allclose(got_stack, expected, atol=1e-2)
           and numpy.allclose(got_bp, exp_bp, atol=1e-2))
print("DEFECT PRESENT" if bad else "ok")
sys.exit(1 if bad else 0)
