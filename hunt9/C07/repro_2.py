"""C07 candidate 2 (low): ft_sh_phase_screen computes D = N*delta in the type of its
arguments; a narrow NumPy integer N with an integer pixel size overflows silently
(only a RuntimeWarning) and the sub-harmonics are laid out for a wrong screen width,
while ft_phase_screen (which casts to float) is right."""
import sys, os, warnings
sys.path.insert(0, os.getcwd())
import numpy as np
from aotools.turbulence.phasescreen import ft_phase_screen, ft_sh_phase_screen
warnings.simplefilter("ignore")
bad = 0
for N, delta in ((np.int8(100), 2), (np.int16(256), 200)):
    args = (0.1, delta, 1e4, 0)
    hi_a = ft_phase_screen(0.1, N, delta, 1e4, 0, seed=1)
    hi_b = ft_phase_screen(0.1, int(N), delta, 1e4, 0, seed=1)
    a = ft_sh_phase_screen(0.1, N, delta, 1e4, 0, seed=1)
    b = ft_sh_phase_screen(0.1, int(N), delta, 1e4, 0, seed=1)
    e_hi = np.abs(hi_a - hi_b).max() / hi_b.std()
    e_sh = np.abs(a - b).max() / b.std()
    print("N=%s(%d) delta=%d: FFT screen rel diff %.3g, SH screen rel diff %.3g" % (type(N).__name__, N, delta, e_hi, e_sh))
    bad += e_sh > 1e-9
print("DEFECT PRESENT" if bad else "ok")
sys.exit(1 if bad else 0)
