"""C07 candidate 1: an even grid size N given as an unsigned NumPy integer
(uint8/16/32/64) makes ft_phase_screen / ft_sh_phase_screen die with an IndexError
from deep inside (-N wraps around, numpy.arange(-N/2., N/2.) is empty)."""
import sys, os, warnings
sys.path.insert(0, os.getcwd())
import numpy as np
from aotools.turbulence.phasescreen import ft_phase_screen, ft_sh_phase_screen
warnings.simplefilter("ignore")
bad = 0
for fn in (ft_phase_screen, ft_sh_phase_screen):
    ref = fn(0.1, 8, 0.1, 10., 0.01, seed=1)
    for t in (np.uint8, np.uint16, np.uint32, np.uint64, np.int64):
        try:
            s = fn(0.1, t(8), 0.1, 10., 0.01, seed=1)
            ok = s.shape == (8, 8) and np.allclose(s, ref, rtol=1e-12, atol=0)
            print(fn.__name__, t.__name__, "shape", s.shape, "equals N=8 screen:", ok)
            bad += not ok
        except Exception as e:
            print(fn.__name__, t.__name__, "->", type(e).__name__ + ":", e)
            bad += 1
print("DEFECT PRESENT" if bad else "ok")
sys.exit(1 if bad else 0)
