"""C07 candidate 3 (low): for an outer scale between about 0.2 and 0.5 of the screen
width the exact ensemble structure function of ft_sh_phase_screen is FARTHER from the
analytic von Karman curve at large separations than that of ft_phase_screen.
The ensemble structure functions are obtained exactly from the code (each screen is
linear in its Gaussian draws: feed unit draws one at a time)."""
import sys, os, warnings
sys.path.insert(0, os.getcwd())
import numpy as np
from scipy.special import kv, gamma
import aotools.turbulence.phasescreen as ps
warnings.simplefilter("ignore")

class Unit:                      # stand-in generator: k-th normal draw = 1, others 0
    def __init__(self, k): self.k, self.c = k, 0
    def normal(self, size):
        n = int(np.prod(size)); out = np.zeros(n)
        if self.c <= self.k < self.c + n: out[self.k - self.c] = 1
        self.c += n; return out.reshape(size)
_orig = np.random.default_rng
np.random.default_rng = lambda s=None: s if isinstance(s, Unit) else _orig(s)

def ensemble_sf(fn, draws, r0, N, d, L0, l0):
    D = np.zeros(N // 2 + 1)
    for k in draws:
        s = fn(r0, N, d, L0, l0, seed=Unit(k))
        D += (s[0, 0] - s[0, :N // 2 + 1]) ** 2
    return D

def vk_sf(r, r0, L0):
    A = (L0 / r0) ** (5 / 3) * 2 ** (1 / 6) * gamma(11 / 6) / np.pi ** (8 / 3) * (24 / 5 * gamma(6 / 5)) ** (5 / 6)
    x = 2 * np.pi * np.maximum(r, 1e-300) / L0
    return A * (gamma(5 / 6) / 2 ** (1 / 6) - x ** (5 / 6) * kv(5 / 6, x))

N, width, r0, l0 = 64, 1.0, 0.1, 0.0
d = width / N
bad = 0
for L0 in (0.5 * width, 2 * width):
    Df = ensemble_sf(ps.ft_phase_screen, range(2 * N * N), r0, N, d, L0, l0)
    # the first 2 N^2 draws of the SH variant are those of its FFT part (checked on a few), the last 54 its sub-harmonics
    for k in (0, 7, 2 * N * N - 1):
        assert np.allclose(ps.ft_sh_phase_screen(r0, N, d, L0, l0, seed=Unit(k)), ps.ft_phase_screen(r0, N, d, L0, l0, seed=Unit(k)), rtol=0, atol=1e-15)
    Ds = Df + ensemble_sf(ps.ft_sh_phase_screen, range(2 * N * N, 2 * N * N + 54), r0, N, d, L0, l0)
    r = np.arange(N // 2 + 1) * d
    Da = vk_sf(r, r0, L0)
    k = slice(N // 4, N // 2 + 1)            # the large separations: width/4 .. width/2
    ef, es = np.abs(Df - Da)[k], np.abs(Ds - Da)[k]
    worse = int((es > ef).sum())
    print("L0 = %.2g x width: SH farther from analytic than FFT at %d of %d large separations; "
          "at r = width/2: FFT %+.3f%%, SH %+.3f%%" % (L0 / width, worse, len(ef),
          100 * (Df - Da)[-1] / Da[-1], 100 * (Ds - Da)[-1] / Da[-1]))
    assert (Ds - Df).min() > -1e-12 * Df.max()   # clause 'no value decreases' holds
    bad += worse > 0
print("DEFECT PRESENT" if bad else "ok")
sys.exit(1 if bad else 0)
