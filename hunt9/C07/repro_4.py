"""C07 candidate 4 (low): L0 = inf (the Kolmogorov limit of the von Karman spectrum,
f0 = 1/L0 = 0) gives the right screen but divides by zero at the zero-frequency sample
before that sample is overwritten with 0: a spurious RuntimeWarning, and a
FloatingPointError for users running under numpy.errstate(divide='raise') /
warnings-as-errors."""
import sys, os, warnings
sys.path.insert(0, os.getcwd())
import numpy as np
from aotools.turbulence.phasescreen import ft_phase_screen, ft_sh_phase_screen
bad = 0
for fn in (ft_phase_screen, ft_sh_phase_screen):
    with warnings.catch_warnings(record=True) as w:
        warnings.simplefilter("always")
        s = fn(0.1, 8, 0.1, np.inf, 0.0, seed=1)
    print(fn.__name__, "L0=inf: finite", bool(np.isfinite(s).all()), "warnings:", sorted({str(x.message) for x in w}))
    bad += len(w) > 0
    try:
        with np.errstate(all="raise"):
            fn(0.1, 8, 0.1, np.inf, 0.0, seed=1)
        print(fn.__name__, "under errstate(all='raise'): ok")
    except FloatingPointError as e:
        print(fn.__name__, "under errstate(all='raise'): FloatingPointError:", e); bad += 1
print("DEFECT PRESENT" if bad else "ok")
sys.exit(1 if bad else 0)
