"""C06 candidate 3: the array handed out by .scrn / add_row() is a live view of the generator state;
an in-place unit conversion on it silently changes every row generated afterwards.
Run: cd /tmp/hunt9/C06 && /venv/bin/python /tmp/hunt9-out/C06/repro_3.py   (exit 1 = defect present)"""
import sys, os; sys.path.insert(0, os.getcwd())
import warnings; warnings.simplefilter("ignore")
import numpy
from aotools.turbulence import infinitephasescreen as ips

bad = 0
for cls in (ips.PhaseScreenVonKarman, ips.PhaseScreenKolmogorov):
    a = cls(16, 0.1, 0.1, 20., random_seed=5)
    b = cls(16, 0.1, 0.1, 20., random_seed=5)
    # run A: copy before converting radians -> nm ; run B: convert the returned array in place
    fa = a.add_row().copy(); fa *= 500. / (2 * numpy.pi)
    fb = b.add_row();        fb *= 500. / (2 * numpy.pi)
    print(cls.__name__, "frame 1 identical:", numpy.array_equal(fa, fb))
    ra, rb = a.add_row()[0], b.add_row()[0]          # the next *new* row of each reproduction
    same = numpy.array_equal(ra, rb)
    print("   next added row identical:", same, " rms A = %.3g rad, rms B = %.3g rad" % (ra.std(), rb.std()))
    shares = numpy.shares_memory(b.scrn, b._scrn)
    print("   .scrn shares memory with the internal state:", shares)
    if not same: bad += 1
sys.exit(1 if bad else 0)
