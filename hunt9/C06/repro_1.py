"""C06 candidate 1: unsigned NumPy integer sizes crash the seeded screen generators.
Run: cd /tmp/hunt9/C06 && /venv/bin/python /tmp/hunt9-out/C06/repro_1.py   (exit 1 = defect present)"""
import sys, os; sys.path.insert(0, os.getcwd())
import warnings; warnings.simplefilter("ignore")
import numpy
from aotools.turbulence import phasescreen as ps, infinitephasescreen as ips

bad = 0
def check(label, make_ref, make_test):
    global bad
    ref = make_ref()
    try:
        out = make_test()
    except Exception as e:
        bad += 1
        print("DEFECT  %-55s %s: %s" % (label, type(e).__name__, e)); return
    same = all(numpy.array_equal(a, b) for a, b in zip(ref, out))
    if not same: bad += 1
    print("%s  %-55s bit-identical to the Python-int call: %s" % ("ok    " if same else "DEFECT", label, same))

def inf(cls, n, **kw):
    s = cls(n, 0.1, 0.1, 20., random_seed=7, **kw)
    return [s.scrn.copy()] + [s.add_row().copy() for _ in range(3)]

for T in (numpy.uint8, numpy.uint16, numpy.uint32, numpy.uint64):
    n = T(16)
    check("ft_phase_screen(N=%s(16))" % T.__name__,
          lambda: [ps.ft_phase_screen(0.1, 16, 0.1, 20., 0.01, seed=7)],
          lambda: [ps.ft_phase_screen(0.1, n, 0.1, 20., 0.01, seed=7)])
    check("ft_sh_phase_screen(N=%s(16))" % T.__name__,
          lambda: [ps.ft_sh_phase_screen(0.1, 16, 0.1, 20., 0.01, seed=7)],
          lambda: [ps.ft_sh_phase_screen(0.1, n, 0.1, 20., 0.01, seed=7)])
    check("PhaseScreenVonKarman(nx_size=%s(16))" % T.__name__,
          lambda: inf(ips.PhaseScreenVonKarman, 16), lambda: inf(ips.PhaseScreenVonKarman, n))
    check("PhaseScreenKolmogorov(stencil_length_factor=%s(4))" % T.__name__,
          lambda: inf(ips.PhaseScreenKolmogorov, 16, stencil_length_factor=4),
          lambda: inf(ips.PhaseScreenKolmogorov, 16, stencil_length_factor=T(4)))
print("defective cases:", bad)
sys.exit(1 if bad else 0)
