"""C06 candidate 4: L0 = inf (Kolmogorov limit) is accepted by the FFT screens but makes the infinite
screens - including PhaseScreenKolmogorov - die inside scipy with an incidental ValueError.
Run: cd /tmp/hunt9/C06 && /venv/bin/python /tmp/hunt9-out/C06/repro_4.py   (exit 1 = defect present)"""
import sys, os; sys.path.insert(0, os.getcwd())
import warnings; warnings.simplefilter("ignore")
import numpy
from aotools.turbulence import phasescreen as ps, infinitephasescreen as ips

a = ps.ft_phase_screen(0.1, 16, 0.1, numpy.inf, 0.01, seed=3)
b = ps.ft_sh_phase_screen(0.1, 16, 0.1, numpy.inf, 0.01, seed=3)
print("FFT screens with L0=inf: finite =", bool(numpy.isfinite(a).all() and numpy.isfinite(b).all()))
bad = 0
for cls in (ips.PhaseScreenKolmogorov, ips.PhaseScreenVonKarman):
    try:
        s = cls(16, 0.1, 0.1, numpy.inf, random_seed=3)
        s.add_row()
        ok = bool(numpy.isfinite(s.scrn).all())
        print(cls.__name__, "L0=inf -> finite screen:", ok)
        bad += (not ok)
    except Exception as e:
        deliberate = "L0" in str(e) or "outer scale" in str(e).lower()
        print(cls.__name__, "L0=inf ->", type(e).__name__ + ":", e, "| deliberate message:", deliberate)
        bad += (not deliberate)
sys.exit(1 if bad else 0)
