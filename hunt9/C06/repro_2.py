"""C06 candidate 2: ft_sh_phase_screen does not normalise its scalar parameters (ft_phase_screen does):
value-equal NumPy scalars give a different (wrong) sub-harmonic screen for the same seed.
Run: cd /tmp/hunt9/C06 && /venv/bin/python /tmp/hunt9-out/C06/repro_2.py   (exit 1 = defect present)"""
import sys, os; sys.path.insert(0, os.getcwd())
import warnings; warnings.simplefilter("ignore")
import numpy
from aotools.turbulence import phasescreen as ps, infinitephasescreen as ips

bad = 0
def cmp(label, ref_args, test_args):
    global bad
    for fn in (ps.ft_phase_screen, ps.ft_sh_phase_screen):
        a = fn(*ref_args, seed=11); b = fn(*test_args, seed=11)
        same = numpy.array_equal(a, b)
        if not same: bad += 1
        print("%s  %-22s %-48s bit-identical: %-5s max|diff| = %.3g" %
              ("ok    " if same else "DEFECT", fn.__name__, label, same, abs(a - b).max()))

i8, i16, u16, f32 = numpy.int8, numpy.int16, numpy.uint16, numpy.float32
# integer pixel size / size held in a small NumPy integer: 3**p * N * delta overflows
cmp("N=int8(16), delta=1   vs N=16, delta=1",        (0.1, 16, 1, 20., 0.01),   (0.1, i8(16), 1, 20., 0.01))
cmp("N=16, delta=int8(1)   vs N=16, delta=1",        (0.1, 16, 1, 20., 0.01),   (0.1, 16, i8(1), 20., 0.01))
cmp("N=int16(1250), delta=1 vs N=1250, delta=1",     (0.1, 1250, 1, 20., 0.01), (0.1, i16(1250), 1, 20., 0.01))
cmp("N=2500, delta=uint16(1) vs N=2500, delta=1",    (0.1, 2500, 1, 20., 0.01), (0.1, 2500, u16(1), 20., 0.01))
# float32 scalars whose values are exactly representable (0.25, 0.5): same parameters, different bits
cmp("r0=float32(0.25) vs r0=0.25",                   (0.25, 64, 0.5, 32., 0.),  (f32(0.25), 64, 0.5, 32., 0.))
cmp("delta=float32(0.5) vs delta=0.5",               (0.25, 64, 0.5, 32., 0.),  (0.25, 64, f32(0.5), 32., 0.))

# same overflow family in the infinite Kolmogorov screen: stencil_length_factor * nx_size in int8
def inf(slf):
    s = ips.PhaseScreenKolmogorov(33, 0.1, 0.1, 20., random_seed=11, stencil_length_factor=slf)
    return [s.scrn.copy()] + [s.add_row().copy() for _ in range(3)]
ref = inf(4)
try:
    out = inf(i8(4))
    same = all(numpy.array_equal(a, b) for a, b in zip(ref, out))
    if not same: bad += 1
    print("%s  PhaseScreenKolmogorov(33, stencil_length_factor=int8(4)) bit-identical: %s" % ("ok    " if same else "DEFECT", same))
except Exception as e:
    bad += 1
    print("DEFECT  PhaseScreenKolmogorov(33, stencil_length_factor=int8(4)) ->", type(e).__name__, e)
print("defective cases:", bad)
sys.exit(1 if bad else 0)
