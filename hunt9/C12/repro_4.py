"""zernIndex uses float sqrt / float division: wrong (n, m) from j ~ 2**53 (9.0e15)."""
import sys, os; sys.path.insert(0, os.getcwd())
import math
from aotools.functions import zernike as Z
def ref(j):
    n = (math.isqrt(8 * (j - 1) + 1) - 1) // 2
    p = j - n * (n + 1) // 2; k = n % 2
    am = ((p + k) // 2) * 2 - k
    return [n, am if j % 2 == 0 else -am]
assert all(Z.zernIndex(j) == ref(j) for j in range(1, 20000))
bad = 0
for j in [2**27 * (2**27 + 1) // 2, 9523970443307940, 10**16, 10**17 + 1]:
    got, exp = Z.zernIndex(j), ref(j)
    print("zernIndex(%d) = %s, exact %s" % (j, got, exp)); bad += got != exp
print("DEFECT PRESENT" if bad else "ok")
sys.exit(1 if bad else 0)
