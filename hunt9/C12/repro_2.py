"""rot does not rotate the mode by rot radians: the code uses cos(m*theta + rot),
i.e. a rotation by -rot/m, so only |m| = 1 modes behave as documented."""
import sys, os; sys.path.insert(0, os.getcwd())
import numpy
from aotools.functions import zernike as Z
N = 64
js = [2, 3, 5, 6, 9, 10, 12, 14]
match = {1: [], -1: []}
for j in js:
    n, m = Z.zernIndex(j)
    base = Z.zernike_noll(j, N)
    r = Z.zernike_noll(j, N, rot=numpy.pi / 2)
    # a rotation by pi/2 about the centre is exact on the grid: numpy.rot90
    res = {k: bool(numpy.allclose(r, numpy.rot90(base, k), atol=1e-9)) for k in (1, -1)}
    for k in res: match[k].append(res[k])
    print("j=%2d (n,m)=(%d,%2d): rot=pi/2 equals rot90(+1): %s, rot90(-1): %s" % (j, n, m, res[1], res[-1]))
consistent = all(match[1]) or all(match[-1])
c = [0, 1.0, 0.5, 0, 0.7, -0.3, 0.2]
p0 = Z.phaseFromZernikes(c, N); p1 = Z.phaseFromZernikes(c, N, rot=numpy.pi / 2)
okp = any(numpy.allclose(p1, numpy.rot90(p0, k), atol=1e-9) for k in (1, -1))
print("all modes rotated by 90 deg in one common sense:", consistent)
print("phaseFromZernikes(c, N, rot=pi/2) is the rot=0 phase rotated by 90 deg:", okp)
bad = (not consistent) or (not okp)
print("DEFECT PRESENT" if bad else "ok")
sys.exit(1 if bad else 0)
