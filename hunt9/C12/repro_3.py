"""Smallest grids (N = 1, 2, 3): p2v / rms normalisation returns inf / NaN /
amplified rounding noise, silently (RuntimeWarning only)."""
import sys, os; sys.path.insert(0, os.getcwd())
import warnings, numpy
warnings.simplefilter("ignore")
from aotools.functions import zernike as Z
bad = 0
for N in (1, 2, 3, 4):
    z = Z.zernikeArray(1, N, norm="p2v")[0]
    print("piston, p2v, N=%d:" % N, z.ravel()[:4])
    bad += not numpy.isfinite(z).all()
z = Z.zernikeArray(3, 1, norm="rms")
print("zernikeArray(3, 1, 'rms') =", z.ravel()); bad += not numpy.isfinite(z).all()
z = Z.zernikeArray(4, 2, norm="rms")[3]
print("defocus (j=4), rms, N=2 (true samples are all exactly 0):", z.ravel())
bad += bool(numpy.allclose(numpy.abs(z), 1))
z = Z.zernikeArray(4, 2, norm="p2v")[3]
print("defocus (j=4), p2v, N=2:", z.ravel()); bad += not numpy.isfinite(z).all()
print("DEFECT PRESENT" if bad else "ok")
sys.exit(1 if bad else 0)
