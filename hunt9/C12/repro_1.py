"""High radial orders (n >= ~790, Noll j >= ~313 000): NaN outside the pupil.
eval_jacobi overflows to inf/nan at the array corners (R up to 1.41), and the
clip `Z * (R <= 1)` turns that into NaN (inf * 0) instead of 0."""
import sys, os; sys.path.insert(0, os.getcwd())
import warnings, numpy
warnings.simplefilter("ignore")
from aotools.functions import zernike as Z

bad = 0
for (n, m, N) in [(800, 0, 256), (900, 0, 65), (900, 2, 128), (1026, 0, 8)]:
    z = Z.zernike_nm(n, m, N)
    c = (numpy.arange(N) - N / 2. + .5) / (N / 2.)
    R = numpy.hypot(*numpy.meshgrid(c, c))
    outside = z[R > 1]
    nn = int(numpy.isnan(outside).sum())
    print("zernike_nm(%d,%d,%d): %d NaN of %d pixels outside the pupil; inside finite: %s"
          % (n, m, N, nn, outside.size, bool(numpy.isfinite(z[R <= 1]).all())))
    bad += (nn > 0) or bool((outside != 0).any())
j = 800 * 801 // 2 + 1          # first mode of order 800
za = Z.zernikeArray([j], 256, norm="rms")
print("zernikeArray([%d], 256, norm='rms'): all NaN = %s" % (j, bool(numpy.isnan(za).all())))
bad += bool(numpy.isnan(za).any())
print("DEFECT PRESENT" if bad else "ok")
sys.exit(1 if bad else 0)
