"""A wavelength (or distance) axis to broadcast over, shape (K,1,1) - the form _double()'s
docstring and commit e72c37a name as supported: works in angularSpectrum (for wvl), but
oneStepFresnel / twoStepFresnel / lensAgainst raise a broadcasting ValueError from inside
(numpy.meshgrid flattens the (K,1,N) coordinate axis to K*N points), and for K = 1
twoStepFresnel silently returns the field mirrored left-right (Uout[::-1, ::-1] and
roll(axis=(0,1)) act on the leading axis instead of the two grid axes)."""
import sys, os; sys.path.insert(0, os.getcwd())
import numpy as np
from aotools import opticalpropagation as op

rng = np.random.default_rng(0); N = 8
U = rng.normal(size=(N, N)) + 1j * rng.normal(size=(N, N))
wl = np.array([500e-9, 600e-9, 700e-9])
d1, d2, z = 1e-3, 2e-3, 10.
calls = {
 "angularSpectrum": (lambda w: op.angularSpectrum(U, w, d1, d2, z), lambda w: d2),
 "oneStepFresnel":  (lambda w: op.oneStepFresnel(U, w, d1, z),      lambda w: w*z/(N*d1)),
 "twoStepFresnel":  (lambda w: op.twoStepFresnel(U, w, d1, d2, z),  lambda w: d2),
 "lensAgainst":     (lambda w: op.lensAgainst(U, w, d1, z),         lambda w: w*z/(N*d1)),
}
pin = (abs(U)**2).sum() * d1**2
bad = 0
for name, (f, dout) in calls.items():
    for K in (3, 1):
        w = wl[:K].reshape(K, 1, 1)
        try:
            out = f(w)
            ok = out.shape == (K, N, N)
            for i in range(K if ok else 0):
                ref = f(float(wl[i]))
                ok &= bool(np.allclose(out[i], ref))
                ok &= abs((abs(out[i])**2).sum() * dout(wl[i])**2 / pin - 1) < 1e-9
            print("%-16s wvl shape (%d,1,1) -> %s %s" % (name, K, out.shape,
                  "equal to the per-wavelength scalar calls" if ok else "DIFFERENT from the scalar call"))
            bad += not ok
        except Exception as e:
            print("%-16s wvl shape (%d,1,1) -> %s: %s" % (name, K, type(e).__name__, e))
            bad += 1
zz = np.array([10., 20.]).reshape(2, 1, 1)
try:
    out = op.angularSpectrum(U, 500e-9, d1, d2, zz); print("angularSpectrum  z shape (2,1,1) ->", out.shape)
except Exception as e:
    print("angularSpectrum  z shape (2,1,1) -> %s: %s" % (type(e).__name__, e)); bad += 1
print("DEFECT PRESENT" if bad else "ok")
sys.exit(1 if bad else 0)
