"""Output spacing given as a one-element array (e.g. a slice pxl_scales[i:i+1]):
angularSpectrum / twoStepFresnel die in float(outputSpacing) with a TypeError, while the
same form is accepted for wvl, inputSpacing and z (commit e72c37a restored exactly that)."""
import sys, os; sys.path.insert(0, os.getcwd())
import numpy as np
from aotools import opticalpropagation as op

rng = np.random.default_rng(0); N = 8
U = rng.normal(size=(N, N)) + 1j * rng.normal(size=(N, N))
wvl, d1, d2, z = 500e-9, 1e-3, 2e-3, 10.
one = lambda x: np.array([x])
bad = 0
for name, f, ref in [("angularSpectrum", op.angularSpectrum, op.angularSpectrum(U, wvl, d1, d2, z)),
                     ("twoStepFresnel", op.twoStepFresnel, op.twoStepFresnel(U, wvl, d1, d2, z))]:
    # control: the other three scalars as shape-(1,) arrays work
    ctl = f(U, one(wvl), one(d1), d2, one(z))
    print(name, "wvl,d1,z as shape-(1,) arrays: ok, equal to scalar call:", np.allclose(ctl, ref))
    try:
        out = f(U, wvl, d1, one(d2), z)
        pin = (abs(U)**2).sum() * d1**2; pout = (abs(out)**2).sum() * d2**2
        ok = out.shape == U.shape and np.allclose(out, ref) and abs(pout/pin - 1) < 1e-9
        print(name, "outputSpacing as shape-(1,) array ->", out.shape, "correct" if ok else "WRONG")
        bad += not ok
    except Exception as e:
        print(name, "outputSpacing as shape-(1,) array -> %s: %s" % (type(e).__name__, e))
        bad += 1
print("DEFECT PRESENT" if bad else "ok")
sys.exit(1 if bad else 0)
