"""C04 candidate 1: PhaseScreenVonKarman cannot be constructed when nx_size is a
numpy *unsigned* integer scalar (np.uint8/16/32/64) - IndexError from deep inside
ft_phase_screen (-N/2. wraps around for unsigned N, the frequency grid is empty).
PhaseScreenKolmogorov accepts the very same value.
Exit 1 if the defect is present, 0 otherwise."""
import sys, warnings
sys.path.insert(0, ".")
warnings.simplefilter("ignore")
import numpy
from aotools.turbulence import PhaseScreenVonKarman, PhaseScreenKolmogorov

bad = 0
ref = PhaseScreenVonKarman(20, 0.1, 0.15, 25., random_seed=1)
for t in (numpy.uint8, numpy.uint16, numpy.uint32, numpy.uint64):
    n = t(20)
    k = PhaseScreenKolmogorov(n, 0.1, 0.15, 25., random_seed=1)      # works
    try:
        s = PhaseScreenVonKarman(n, 0.1, 0.15, 25., random_seed=1)
        ok = s.scrn.shape == (20, 20) and numpy.allclose(s.A_mat, ref.A_mat) \
            and numpy.allclose(s.B_mat, ref.B_mat) and s.add_row().shape == (20, 20)
        print("%-8s VonKarman ok=%s   (Kolmogorov scrn %s)" % (t.__name__, ok, k.scrn.shape))
        bad += not ok
    except Exception as e:
        print("%-8s VonKarman FAILS: %s: %s   (Kolmogorov scrn %s)" % (t.__name__, type(e).__name__, e, k.scrn.shape))
        bad += 1
print("DEFECT PRESENT" if bad else "no defect")
sys.exit(1 if bad else 0)
