"""C04 candidate 2: for L0/pixel_scale between ~1e9 and the point where construction is
refused (~4e9) the constructor SUCCEEDS but A and B violate
   A Czz = Cxz   and   A Czz A^T + B B^T = Cxx
by several per cent of the innovation covariance B B^T (and B B^T loses the mirror
symmetry of the problem).  Reference: the von Karman covariance written as
C(r) = C(0) - D(r)/2 with D(r)/2 from the power series of x^(5/6) K_5/6(x) (no
cancellation), all products accumulated in extended precision (numpy.longdouble).
Exit 1 if the defect is present."""
import sys, warnings
sys.path.insert(0, ".")
warnings.simplefilter("ignore")
import numpy as np
from scipy.special import gamma
from aotools.turbulence import PhaseScreenVonKarman, PhaseScreenKolmogorov

LD = np.longdouble
if np.finfo(LD).eps > 1e-18:
    print("no extended precision on this platform - cannot judge"); sys.exit(0)
NU = LD(5) / LD(6)

def half_structure(x):
    """c0 - x^nu K_nu(x), c0 = 2^(nu-1) Gamma(nu), by power series (x << 1), longdouble."""
    x = np.asarray(x, LD)
    pref = LD(np.pi) / (2 * np.sin(LD(np.pi) * NU))
    h = (x / 2) ** 2
    s1 = np.zeros_like(x); s2 = np.zeros_like(x)
    t1 = np.ones_like(x) / LD(gamma(float(1 - NU)))      # k = 0 term of x^nu I_-nu / 2^nu
    t2 = np.ones_like(x) / LD(gamma(float(1 + NU)))      # k = 0 term of I_nu part
    for k in range(0, 12):
        if k > 0:
            t1 = t1 * h / (k * (k - NU)); s1 = s1 + t1
            t2 = t2 * h / (k * (k + NU))
        s2 = s2 + t2
    return pref * (-(LD(2) ** NU) * s1 + x ** (2 * NU) * LD(2) ** (-NU) * s2)

def residuals(s):
    r0, L0, ps = LD(float(s.r0)), LD(float(s.L0)), LD(float(s.pixel_scale))
    n, nz = s.nx_size, s.n_stencils
    P = np.vstack([np.asarray(s.stencil_coords, float),
                   np.stack([-np.ones(n), np.arange(n)], 1)])
    d = np.sqrt(((P[:, None] - P[None]) ** 2).sum(-1)).astype(LD) * ps
    K = (L0 / r0) ** (LD(5) / 3) * LD(2) ** (-LD(5) / 6) * LD(gamma(11 / 6)) / LD(np.pi) ** (LD(8) / 3) \
        * (LD(24) / 5 * LD(gamma(6 / 5))) ** (LD(5) / 6)
    c0 = LD(2) ** (NU - 1) * LD(gamma(5 / 6))
    C = K * c0 - K * half_structure(2 * LD(np.pi) * d / L0)
    Czz, Cxz, Cxx = C[:nz, :nz], C[nz:, :nz], C[nz:, nz:]
    A, B = s.A_mat.astype(LD), s.B_mat.astype(LD)
    BBt = B @ B.T
    scale = np.abs(np.diag(BBt)).max()
    e1 = np.abs(A @ Czz - Cxz).max() / scale
    e2 = np.abs(A @ Czz @ A.T + BBt - Cxx).max() / scale
    asym = np.abs(np.diag(BBt) - np.diag(BBt)[::-1]).max() / scale
    return float(e1), float(e2), float(asym)

TOL = 1e-3      # 0.1 % of the innovation variance; the clean regime is < 1e-6
bad = 0
for cls, kw in ((PhaseScreenVonKarman, {}), (PhaseScreenKolmogorov, {"stencil_length_factor": 1})):
    for L0 in (1e3, 1e6, 1e8, 2e8, 3e8):
        try:
            s = cls(5, 0.1, 0.1, L0, random_seed=1, **kw)
        except Exception as e:
            print("%-22s L0/pix=%.0e  refused: %s" % (cls.__name__, L0 / 0.1, type(e).__name__)); continue
        e1, e2, asym = residuals(s)
        flag = max(e1, e2) > TOL
        bad += flag
        print("%-22s L0/pix=%.0e  |A Czz-Cxz|=%.1e  |A Czz A'+BB'-Cxx|=%.1e  BB' asymmetry=%.1e  (units of max BB')%s"
              % (cls.__name__, L0 / 0.1, e1, e2, asym, "  <-- VIOLATION" if flag else ""))
print("DEFECT PRESENT" if bad else "no defect")
sys.exit(1 if bad else 0)
