"""C04 candidate 3 (low): PhaseScreenKolmogorov with stencil_length_factor given as a
narrow numpy integer scalar: stencil_length = stencil_length_factor * nx_size is
evaluated in that narrow type and wraps around -> 'negative dimensions' ValueError or
an IndexError from set_stencil_coords instead of a screen.
Exit 1 if the defect is present."""
import sys, warnings
sys.path.insert(0, ".")
warnings.simplefilter("ignore")
import numpy
from aotools.turbulence import PhaseScreenKolmogorov

bad = 0
for n, f in ((33, numpy.int8(4)), (129, numpy.uint8(4)), (65, numpy.uint8(4))):
    ref = PhaseScreenKolmogorov(n, 0.1, 0.15, 25., random_seed=1, stencil_length_factor=int(f))
    try:
        s = PhaseScreenKolmogorov(n, 0.1, 0.15, 25., random_seed=1, stencil_length_factor=f)
        ok = s._scrn.shape == ref._scrn.shape and numpy.allclose(s.A_mat, ref.A_mat)
        print("nx_size=%d factor=%r: ok=%s (buffer %s, expected %s)" % (n, f, ok, s._scrn.shape, ref._scrn.shape))
        bad += not ok
    except Exception as e:
        print("nx_size=%d factor=%r FAILS: %s: %s  (int(factor) works, buffer %s)" % (n, f, type(e).__name__, e, ref._scrn.shape))
        bad += 1
print("DEFECT PRESENT" if bad else "no defect")
sys.exit(1 if bad else 0)
