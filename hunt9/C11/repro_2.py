"""Rectangular (non-square) fields: broadcasting ValueError from inside for N x M,
silently wrong shape / values for N x 1 and 1 x N."""
import sys, os; sys.path.insert(0, os.getcwd())
import numpy as np
from aotools import opticalpropagation as op

def rel(a, b): return np.abs(a - b).max() / np.abs(b).max()
wvl, d, z = 1e-6, 0.01, 100.
bad = False
rng = np.random.default_rng(0)
calls = [("angularSpectrum", lambda U: op.angularSpectrum(U, wvl, d, d, z)),
         ("oneStepFresnel", lambda U: op.oneStepFresnel(U, wvl, d, z)),
         ("twoStepFresnel", lambda U: op.twoStepFresnel(U, wvl, d, 2 * d, z)),
         ("lensAgainst", lambda U: op.lensAgainst(U, wvl, d, z))]
for shape in [(8, 16), (16, 8), (1, 16), (16, 1)]:
    U = rng.normal(size=shape) + 1j * rng.normal(size=shape)
    for name, f in calls:
        try:
            r = f(U)
            msg = "returned shape %s" % (r.shape,)
            if r.shape != U.shape: bad = True; msg += "  <-- wrong shape"
        except ValueError as e:
            msg = "ValueError: %s" % e
            if "broadcast" in str(e): bad = True
        print(shape, name, msg)
# group laws on a rectangular field (only reached if nothing above failed)
U = rng.normal(size=(8, 16)) + 1j * rng.normal(size=(8, 16))
try:
    a = op.angularSpectrum(U, wvl, d, d, z)
    b = op.angularSpectrum(op.angularSpectrum(U, wvl, d, d, 0.3 * z), wvl, d, d, 0.7 * z)
    c = op.angularSpectrum(a, wvl, d, d, -z)
    print("8x16: split error %.1e, inverse error %.1e" % (rel(b, a), rel(c, U)))
    if rel(b, a) > 1e-9 or rel(c, U) > 1e-9: bad = True
except ValueError as e:
    print("8x16 group law: ValueError:", e); bad = bad or ("broadcast" in str(e))
# 1 x N : the value is silently wrong (unit magnification must preserve the energy sum |U|^2)
U = rng.normal(size=(1, 16)) + 1j * rng.normal(size=(1, 16))
try:
    a = op.angularSpectrum(U, wvl, d, d, z)
    ratio = (np.abs(a) ** 2).sum() / (np.abs(U) ** 2).sum()
    print("1x16 angularSpectrum at unit magnification: energy out / energy in = %g (expected 1)" % ratio)
    if abs(ratio - 1) > 1e-9: bad = True
except ValueError as e:
    print("1x16: ValueError:", e)
print("DEFECT PRESENT" if bad else "ok")
sys.exit(1 if bad else 0)
