"""oneStepFresnel (and lensAgainst) over a negative distance return the field
point-reflected with respect to angularSpectrum / twoStepFresnel / theory."""
import sys, os; sys.path.insert(0, os.getcwd())
import numpy as np
from aotools import opticalpropagation as op

def gauss(N, d, w0, wvl, z, x0, y0):
    # analytic Gaussian beam (waist w0 at z=0, centred on (x0,y0)), exp(ikz) omitted
    x = (np.arange(N) - N // 2) * d; X, Y = np.meshgrid(x, x)
    r2 = (X - x0) ** 2 + (Y - y0) ** 2
    zR = np.pi * w0 ** 2 / wvl; q = z - 1j * zR
    return (-1j * zR / q) * np.exp(1j * 2 * np.pi / wvl * r2 / (2 * q))

def rel(a, b): return np.abs(a - b).max() / np.abs(b).max()
def reflect(A):  # point reflection through sample N//2
    N = A.shape[0]; return np.roll(A[::-1, ::-1], 1 - N % 2, axis=(0, 1))

bad = False
wvl, d, w0 = 1e-6, 0.002, 0.008
for N in (64, 65):
    x0, y0 = 5 * d, -9 * d                      # off-centre beam: orientation is visible
    U = gauss(N, d, w0, wvl, 0., x0, y0)
    for z in (+1.5 * N * d * d / wvl, -1.5 * N * d * d / wvl):
        d2 = abs(wvl * z / (N * d))             # grid of oneStepFresnel
        ref = gauss(N, d2, w0, wvl, z, x0, y0)  # theory on the ascending grid (i-N//2)*d2
        one = op.oneStepFresnel(U, wvl, d, z)
        asp = op.angularSpectrum(U, wvl, d, d2, z)
        two = op.twoStepFresnel(U, wvl, d, d2, z)
        e1, ea, et, ef = rel(one, ref), rel(asp, ref), rel(two, ref), rel(reflect(one), ref)
        print("N=%d z=%+.0f  err vs theory: angularSpectrum %.1e twoStep %.1e oneStep %.1e (oneStep point-reflected %.1e)"
              % (N, z, ea, et, e1, ef))
        if e1 > 1e-3: bad = True
    # consequence: +z followed by -z does not give back the input but its mirror image
    z = 1.5 * N * d * d / wvl
    fwd = op.oneStepFresnel(U, wvl, d, z)
    back = op.oneStepFresnel(fwd, wvl, wvl * z / (N * d), -z)
    print("N=%d oneStep(+z) then oneStep(-z): |back-U| %.1e, |back-reflect(U)| %.1e" % (N, rel(back, U), rel(back, reflect(U))))
    if rel(back, U) > 1e-3: bad = True
    # lensAgainst, diverging lens f<0, against angularSpectrum of (U * lens phase) over z=f
    f = -3 * N * d * d / wvl
    x = (np.arange(N) - N // 2) * d; X, Y = np.meshgrid(x, x)
    V = U * np.exp(-1j * 2 * np.pi / wvl * (X ** 2 + Y ** 2) / (2 * f))
    L = op.lensAgainst(U, wvl, d, f)
    A = op.angularSpectrum(V, wvl, d, abs(wvl * f / (N * d)), f)
    print("N=%d lensAgainst(f<0) vs angularSpectrum: %.1e (point-reflected: %.1e)" % (N, rel(L, A), rel(reflect(L), A)))
    if rel(L, A) > 1e-3: bad = True
print("DEFECT PRESENT" if bad else "ok")
sys.exit(1 if bad else 0)
