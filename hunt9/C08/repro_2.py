"""C08 candidate 2: structure_function_kolmogorov does its arithmetic in the
dtype of the separations; half precision separations overflow to inf at
r/r0 = 1000 (and lose 3 digits below), while structure_function_vk with a huge
L0 - whose limit it is - returns the right finite value for the same input."""
import sys, os, warnings
sys.path.insert(0, os.getcwd())
warnings.simplefilter("ignore")
import numpy as np
from aotools.turbulence.slopecovariance import (structure_function_vk,
                                                structure_function_kolmogorov)
r0 = 0.1
r64 = np.array([0., 1., 30., 100.])
bad = False
ref = 6.88 * (r64 / r0) ** (5. / 3)
for dt in (np.float64, np.float32, np.float16):
    r = r64.astype(dt)
    k = structure_function_kolmogorov(r, r0)
    v = structure_function_vk(r, r0, 1e12)
    print(dt.__name__, "kolmogorov:", k, " vk(L0=1e12):", v)
    if not np.all(np.isfinite(k)) or not np.allclose(np.asarray(k, float), ref, rtol=1e-5):
        print("DEFECT for", dt.__name__, ": expected", ref)
        bad = True
sys.exit(1 if bad else 0)
