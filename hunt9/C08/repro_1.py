"""C08 candidate 1: L0 = inf (the Kolmogorov limit itself) gives NaN from the
von Karman structure function and a LinAlgError from the KL code."""
import sys, os, warnings
sys.path.insert(0, os.getcwd())
warnings.simplefilter("ignore")
import numpy as np
from aotools.turbulence.slopecovariance import (structure_function_vk,
                                                structure_function_kolmogorov)
from aotools.functions.karhunenLoeve import stf_vonKarman

bad = False
r = np.array([0., 0.1, 1., 10.])
r0 = 0.1
kol = structure_function_kolmogorov(r, r0)
for L0 in [1e6, 1e12, 1e100, np.inf]:
    d = structure_function_vk(r, r0, L0)
    print("L0 = %-8g D_vk = %s" % (L0, d))
print("Kolmogorov      D    = %s" % kol)

d_inf = structure_function_vk(r, r0, np.inf)
if not np.all(np.isfinite(d_inf)) or d_inf[0] != 0 or not np.allclose(d_inf, kol, rtol=2e-3):
    print("DEFECT: structure_function_vk(r, r0, inf) =", d_inf, "(expected the Kolmogorov law, 0 at r = 0)")
    bad = True
s = stf_vonKarman(r, np.inf)
print("stf_vonKarman(r, inf) =", s)
if not np.all(np.isfinite(s)):
    print("DEFECT: the KL copy stf_vonKarman(r, inf) is not finite")
    bad = True
sys.exit(1 if bad else 0)
