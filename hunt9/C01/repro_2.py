"""C01 candidate 2: the product of the two sensors' wavelengths is formed in the dtype of the
wfs_wavelengths array; for a narrow dtype (int16/uint16/float16 wavelengths in nanometres) it
overflows and the matrix is wrong (negative variances / inf) instead of scaling as lambda_i*lambda_j."""
import sys, warnings; sys.path.insert(0, '.')
import numpy as np
from aotools.turbulence.slopecovariance import CovarianceMatrix
warnings.simplefilter("ignore")
mask = np.ones((2, 2), int)
def build(lams):
    cm = CovarianceMatrix(2, [mask, mask], 1., np.array([.5, .5]), np.array([0., 9e4]), np.array([[0., 0.], [10., 5.]]),
                          lams, 2, np.array([0., 5000.]), np.array([.1, .2]), np.array([20., 30.]))
    return cm.make_covariance_matrix()
ref = build(np.array([500., 600.]))
bad = False
for dt in (np.int64, np.int32, np.int16, np.uint16, np.float16):
    got = build(np.array([500, 600], dtype=dt))
    ok = np.allclose(got, ref, rtol=1e-3, atol=1e-6 * np.abs(ref).max())
    print("%-8s min diagonal %12.5g (ref %.5g)  matches float64 build: %s" % (np.dtype(dt).name, np.diag(got).min(), np.diag(ref).min(), ok))
    bad |= not ok
print("DEFECT PRESENT" if bad else "ok")
sys.exit(1 if bad else 0)
