"""C01 candidate 1: a layer with infinite outer scale (L0 = inf, the Kolmogorov limit of
von Karman turbulence) turns the whole slope covariance matrix into NaN."""
import sys, warnings; sys.path.insert(0, '.')
import numpy as np
from aotools.turbulence.slopecovariance import CovarianceMatrix, structure_function_vk
warnings.simplefilter("ignore")
mask = np.ones((2, 2), int)
def build(L0s):
    cm = CovarianceMatrix(1, [mask], 1., np.array([.5]), np.array([0.]), np.array([[0., 0.]]), np.array([5e-7]),
                          2, np.array([0., 5000.]), np.array([.1, .2]), np.array(L0s))
    return cm.make_covariance_matrix()
ref = build([1e12, 25.])        # finite but huge outer scale: works, equals the Kolmogorov value to ~1e-4
got = build([np.inf, 25.])
print("D_vk(0.3, r0=0.1, L0=1e12) =", structure_function_vk(0.3, 0.1, 1e12))
print("D_vk(0.3, r0=0.1, L0=inf)  =", structure_function_vk(0.3, 0.1, np.inf), "(Kolmogorov: 42.93)")
print("NaN entries with L0=[inf, 25]:", int(np.isnan(got).sum()), "of", got.size)
bad = bool(np.isnan(got).any()) or not np.allclose(got, ref, rtol=1e-2, atol=1e-3 * np.abs(ref).max())
if not bad:
    print("max rel. deviation from L0=1e12 build:", np.abs(got - ref).max() / np.abs(ref).max())
print("DEFECT PRESENT" if bad else "ok")
sys.exit(1 if bad else 0)
