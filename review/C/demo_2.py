"""Incomplete repair 2d6d1b2 ("real-input inverse transforms return the input of
rft/rft2"): true only when the last axis is even. irft / irft2 have no way to be
told the output length, so an odd last axis comes back one sample short (and the
values are those of a different, even-length signal).
Run:  cd /tmp/rev/C && /venv/bin/python /tmp/rev-out/C/demo_2.py"""
import sys, os
sys.path.insert(0, os.getcwd())
import numpy as np
from aotools import fouriertransform as ftm

rng = np.random.default_rng(0)
d = 0.25
bad = 0
for shape in ((16,), (17,), (12, 16), (13, 16), (12, 17), (17, 17)):
    x = rng.normal(size=shape)
    n = shape[-1]
    if len(shape) == 1:
        back = ftm.irft(ftm.rft(x, d), 1. / (n * d))
        cplx = ftm.ift(ftm.ft(x, d), 1. / (n * d)).real
    else:
        back = ftm.irft2(ftm.rft2(x, d), 1. / (n * d))
        cplx = ftm.ift2(ftm.ft2(x, d), 1. / (n * d)).real
    ok = back.shape == x.shape and np.allclose(back, x, rtol=0, atol=1e-12)
    okc = np.allclose(cplx, x, rtol=0, atol=1e-12)
    print("shape %-9s real round trip -> %-9s %s   (complex round trip %s)" % (shape, back.shape, "ok" if ok else "WRONG", "ok" if okc else "WRONG"))
    bad += not ok
sys.exit(1 if bad else 0)
