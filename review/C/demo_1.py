"""Incomplete repair 564c27f / 276f3c9: aotools.turbulence.ift2 (same name and
signature as aotools.ift2, touched by 4174309) still evaluates (N*delta_f)**2 on
the scalar, in the scalar's own dtype.
Run:  cd /tmp/rev/C && /venv/bin/python /tmp/rev-out/C/demo_1.py"""
import sys, os, warnings
sys.path.insert(0, os.getcwd())
import numpy as np
import aotools
from aotools.turbulence import phasescreen

rng = np.random.default_rng(0)
N = 512
G = rng.normal(size=(N, N)) + 1j * rng.normal(size=(N, N))
bad = 0
for d in (np.float32(0.1), np.int32(100)):
    ref = phasescreen.ift2(G, float(d))            # Python float spacing: exact scale
    with warnings.catch_warnings():
        warnings.simplefilter("ignore")
        turb = phasescreen.ift2(G, d)
    pkg = aotools.ift2(G, d)                      # repaired sibling
    e_turb = np.abs(turb - ref).max() / np.abs(ref).max()
    e_pkg = np.abs(pkg - ref).max() / np.abs(ref).max()
    print("%-18r aotools.ift2 rel.err %.2e   aotools.turbulence.ift2 rel.err %.2e" % (d, e_pkg, e_turb))
    if e_turb > 1e-12:
        bad += 1
sys.exit(1 if bad else 0)
