"""Left over next to 2d6d1b2 (pre-existing, not a regression): rft / rft2 apply
fftshift to the HALF spectrum along the last axis, so the returned bins are in the
order [N/4+1 .. N/2, 0 .. N/4] - not a frequency axis anybody can build (the
complex ft/ft2 return -N/2 .. N/2-1). irft/irft2 undo it, so round trips hide it.
Run:  cd /tmp/rev/C && /venv/bin/python /tmp/rev-out/C/demo_3.py"""
import sys, os
sys.path.insert(0, os.getcwd())
import numpy as np
from aotools import fouriertransform as ftm

N, d = 16, 0.5
n = np.arange(N) - N // 2
bad = 0
for k in (0, 1, 3):
    x = np.cos(2 * np.pi * k * n / N)            # energy at frequency index k only
    F = ftm.rft(x, d)
    Fc = ftm.ft(x, d)
    peak_r = int(np.argmax(np.abs(F)))
    peak_c = int(np.argmax(np.abs(Fc[N // 2:])))  # non-negative half of the complex transform
    print("cosine at frequency index %d: ft peak at bin %d of the non-negative half, rft peak at bin %d of %d" % (k, peak_c, peak_r, F.size))
    bad += peak_r != k
order = []
for j in range(N // 2 + 1):                       # which frequency sits in each rft bin
    x = np.cos(2 * np.pi * j * n / N)
    order.append(int(np.argmax(np.abs(ftm.rft(x, d)))))
print("rft bin holding frequency 0..N/2:", order)
sys.exit(1 if bad else 0)
