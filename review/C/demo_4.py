"""Incomplete repair 4174309: turbulence.ift2 is now a correct centred inverse DFT
(bin N//2 = zero frequency), but its only caller ft_phase_screen still lays the
PSD out on fx = arange(-N/2, N/2)/D, which for odd N are HALF-integer multiples of
1/D. The spectrum is therefore sampled half a bin off (three bins at |f| = 0.71/D
instead of four at 1/D ...): an odd-N screen has 1.4-2.3 times the structure
function of the N-1 / N+1 screens of the same physical size (before the ift2
repair: 1.15-1.3 times plus a random piston; both wrong, the repair is not the cause).
Expectation: the covariance ft_phase_screen synthesises on integer harmonics k/D.
Run:  cd /tmp/rev/C && /venv/bin/python /tmp/rev-out/C/demo_4.py   (~15 s)"""
import sys, os
sys.path.insert(0, os.getcwd())
import numpy as np
from aotools.turbulence import phasescreen

D, r0, L0, K = 2.0, 0.2, 100., 400
seps = [1, 2, 4, 8, 16]

def expected_sf(N):
    k = np.arange(N) - N // 2
    fx, fy = np.meshgrid(k / D, k / D)
    psd = 0.023 * r0 ** (-5 / 3) / (fx ** 2 + fy ** 2 + 1 / L0 ** 2) ** (11 / 6)
    psd[N // 2, N // 2] = 0
    return np.array([2 * (psd * (1 - np.cos(2 * np.pi * fx * s * D / N))).sum() / D ** 2 for s in seps])

bad = 0
for N in (32, 33, 34):
    sf = np.zeros(len(seps))
    for s in range(K):
        scr = phasescreen.ft_phase_screen(r0, N, D / N, L0, 0.0, seed=s)
        for i, r in enumerate(seps):
            sf[i] += (((scr[:, r:] - scr[:, :-r]) ** 2).mean() + ((scr[r:] - scr[:-r]) ** 2).mean()) / 2 / K
    ratio = sf / expected_sf(N)
    print("N=%d  D_phi(measured)/D_phi(expected) at %s px: %s" % (N, seps, np.round(ratio, 3)))
    bad += np.abs(ratio - 1).max() > 0.1
sys.exit(1 if bad else 0)
