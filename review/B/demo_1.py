"""Regression of 579b2d6 (float() on entry of every propagator).

(a) angularSpectrum used to broadcast over an array of wavelengths of shape
    (K,1,1) (all meshgrids are built from the spacings only, the FFTs act on the
    last two axes) and returned the K propagated fields, each right against the
    analytic Gaussian beam; it now raises TypeError.
(b) one-element arrays (shape (1,)) for wvl / z / f, e.g. heights[i:i+1] or a
    value read with numpy.loadtxt(..., ndmin=1), worked in all four propagators
    and now raise TypeError.
Run from the worktree:  /venv/bin/python /tmp/rev-out/B/demo_1.py   (exit 1 = problem present)
"""
import os, sys
sys.path.insert(0, os.getcwd())
import numpy as np
from aotools import opticalpropagation as op

def gauss(N, d, wvl, w0, z, x0=0., y0=0.):
    x = (np.arange(N) - N // 2) * d
    X, Y = np.meshgrid(x, x)
    c = 1 + 1j * z / (np.pi * w0 ** 2 / wvl)
    return np.exp(-((X - x0) ** 2 + (Y - y0) ** 2) / (w0 ** 2 * c)) / c

N, d, w0, z = 128, 1e-3, 6e-3, 40.
U0 = gauss(N, d, 1e-6, w0, 0., 2e-3, -1e-3)
bad = 0

wv = np.array([0.8e-6, 1.0e-6, 1.2e-6]).reshape(3, 1, 1)
try:
    out = op.angularSpectrum(U0, wv, d, d, z)
    for i in range(3):
        ref = gauss(N, d, wv[i, 0, 0], w0, z, 2e-3, -1e-3)
        e = abs(out[i] - ref).max() / abs(ref).max()
        print("angularSpectrum wavelength stack, plane %d: error vs analytic %.1e" % (i, e))
        bad += e > 1e-9
except Exception as exc:
    print("angularSpectrum(U, wvl[K,1,1], ...) raises %s: %s   (pre-repair: 3 correct planes)" % (type(exc).__name__, exc))
    bad += 1

one = lambda v: np.array([v])
cases = [("angularSpectrum", (one(1e-6), d, d, z)), ("angularSpectrum", (1e-6, d, d, one(z))),
         ("oneStepFresnel", (1e-6, d, one(z))), ("twoStepFresnel", (one(1e-6), d, 1.5 * d, z)),
         ("lensAgainst", (1e-6, d, one(0.3)))]
for name, args in cases:
    ref = getattr(op, name)(U0, *[float(np.ravel(a)[0]) for a in args])
    try:
        r = getattr(op, name)(U0, *args)
        e = abs(r - ref).max() / abs(ref).max()
        print("%s with a shape-(1,) scalar: differs from plain float call by %.1e" % (name, e))
        bad += e > 1e-12
    except Exception as exc:
        print("%s with a shape-(1,) scalar raises %s   (pre-repair: same result as with a float)" % (name, type(exc).__name__))
        bad += 1
print("PROBLEMS:", bad)
sys.exit(1 if bad else 0)
