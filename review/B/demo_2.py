"""Minor regression of 220abe5 (lensAgainst: numpy.asarray(Uin, dtype=complex)).

A clongdouble (complex256) field used to be transformed in extended precision and
returned as complex256 (error against the analytic focal field of a Gaussian 6e-18);
the unconditional cast to complex128 now returns complex128 with a 4e-16 error, while the
three sibling propagators still return complex256 for the same input.
Run from the worktree; exit 1 = problem present.
"""
import os, sys
sys.path.insert(0, os.getcwd())
import numpy as np
from aotools import opticalpropagation as op
L = np.longdouble
if np.finfo(L).eps >= np.finfo(float).eps:
    print("longdouble is double here: nothing to show"); sys.exit(0)
pi = 4 * np.arctan(L(1))
N = 128
wvl, d, w0, f = L(1) / 10 ** 6, L(1) / 1000, L(6) / 1000, L(50)
x0, y0 = L(2) / 1000, -L(1) / 1000
x = (np.arange(N) - N // 2) * d
X, Y = np.meshgrid(x, x)
U0 = np.exp(-((X - x0) ** 2 + (Y - y0) ** 2) / w0 ** 2) + 0j
assert U0.dtype == np.clongdouble
x = (np.arange(N) - N // 2) * wvl * f / (N * d)
X, Y = np.meshgrid(x, x)
fx, fy = X / (wvl * f), Y / (wvl * f)
FT = pi * w0 ** 2 * np.exp(-pi ** 2 * w0 ** 2 * (fx ** 2 + fy ** 2)) * np.exp(-2j * pi * (fx * x0 + fy * y0))
ref = np.exp(1j * pi / (wvl * f) * (X ** 2 + Y ** 2)) / (1j * wvl * f) * FT
out = op.lensAgainst(U0, wvl, d, f)   # longdouble scalars
e = float(abs(out - ref).max() / abs(ref).max())
print("lensAgainst      -> %s, error vs analytic %.1e   (pre-repair: complex256, 6e-18)" % (out.dtype, e))
print("angularSpectrum  -> %s" % op.angularSpectrum(U0, 1e-6, 1e-3, 1e-3, 30.).dtype)
print("oneStepFresnel   -> %s" % op.oneStepFresnel(U0, 1e-6, 1e-3, 128.).dtype)
print("twoStepFresnel   -> %s" % op.twoStepFresnel(U0, 1e-6, 1e-3, 1.5e-3, 128.).dtype)
bad = (out.dtype != np.clongdouble) or e > 5e-17
print("PROBLEM" if bad else "ok")
sys.exit(1 if bad else 0)
