"""5c26b58: wfs_covariance (public, documented) now returns 4 arrays instead of 3.
Code written against the snapshot API  `cov_xx, cov_yy, cov_xy = wfs_covariance(...)`
(correct before for equal sub-aperture sizes) now raises ValueError."""
import sys
sys.path.insert(0, __import__("os").getcwd())
import numpy, aotools

pos = numpy.array([[-1., -1.], [-1., 1.], [1., -1.], [1., 1.]])
try:
    cov_xx, cov_yy, cov_xy = aotools.wfs_covariance(4, 4, pos, pos, 2., 2., 0.15, 25.)
except ValueError as e:
    print("FAIL: 3-value unpacking of wfs_covariance (snapshot API) raises:", e)
    sys.exit(1)
print("ok")
