"""a44f4c8 incomplete: only integer/bool input is promoted. float16 data (e.g. phase in nm) still has the
differences squared in the input dtype: anything above sqrt(65504) ~ 256 overflows to inf."""
import sys, warnings
sys.path.insert(0, __import__("os").getcwd())
import numpy, aotools
rng = numpy.random.default_rng(1)
phase = (rng.normal(size=(64, 64)) * 300).astype("float16")
with warnings.catch_warnings():
    warnings.simplefilter("ignore")
    sf = aotools.calculate_structure_function(phase)
p = phase.astype(float)
ref = numpy.array([0.] + [numpy.mean((p[:-i] - p[i:]) ** 2) for i in range(1, 16)])
print("got", sf[:4], "\nref", ref[:4])
sys.exit(0 if numpy.allclose(sf, ref, rtol=1e-3) else 1)
