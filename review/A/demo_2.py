"""319ef2c / a144405: structure_function_vk lost two input forms that gave correct results at 597d213:
 (a) array-valued r0 or L0 (broadcast, e.g. one call for several layers) -> TypeError (float(r0), float(L0));
 (b) masked-array separations -> mask silently dropped, masked entries come back as ordinary numbers."""
import sys, subprocess, importlib.util
sys.path.insert(0, __import__("os").getcwd())
import numpy, scipy.special
from aotools.turbulence.slopecovariance import structure_function_vk

def closed_form(r, r0, L0):   # independent, the textbook expression (fine at these moderate L0)
    x = 2 * numpy.pi * r / L0
    return 0.17253 * (L0 / r0) ** (5 / 3.) * (1 - 2 ** (1 / 6.) / scipy.special.gamma(5 / 6.) * x ** (5 / 6.) * scipy.special.kv(5 / 6., x))

bad = 0
L0s = numpy.array([10., 20., 30.]); r0s = numpy.array([0.1, 0.2, 0.3])
for label, args in (("array L0", (1.0, 0.1, L0s)), ("array r0", (numpy.array([1., 2., 3.]), r0s, 25.))):
    expect = closed_form(*args)
    try:
        got = structure_function_vk(*args)
        ok = numpy.allclose(got, expect, rtol=1e-9)
    except Exception as e:
        got, ok = repr(e), False
    print(label, "expected", expect, "got", got)
    bad += not ok

ma = numpy.ma.masked_array([1.0, 2.0, 3.0], mask=[0, 1, 0])
got = structure_function_vk(ma, 0.1, 25.)
print("masked input ->", type(got).__name__, got, "(snapshot returned MaskedArray [158.8 -- 600.6])")
if not (isinstance(got, numpy.ma.MaskedArray) and got.mask[1]):
    bad += 1
sys.exit(1 if bad else 0)
