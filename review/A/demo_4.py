"""Cost regressions (minor), measured against the snapshot 597d213 versions of the same functions:
 0a36f67 mirror_covariance_matrix: peak extra memory 4 x the matrix (was 1 x), ~3 x slower;
 319ef2c structure_function_vk: series AND Bessel branch evaluated for every element:
         ~15 x slower per scalar call, ~2.3 x for arrays (CPU time)."""
import sys, subprocess, time, tracemalloc, types
sys.path.insert(0, __import__("os").getcwd())
import numpy
from aotools.turbulence import slopecovariance as new
src = subprocess.check_output(["git", "show", "597d213:aotools/turbulence/slopecovariance.py"], cwd=__import__("os").getcwd()).decode()
old = types.ModuleType("old_slopecov"); exec(compile(src, "old_slopecov", "exec"), old.__dict__)

def peak(f, *a):
    tracemalloc.start(); f(*a); p = tracemalloc.get_traced_memory()[1]; tracemalloc.stop(); return p
def cpu(f, *a, reps=1):
    best = 1e9
    for _ in range(3):
        t = time.process_time()
        for _ in range(reps): f(*a)
        best = min(best, (time.process_time() - t) / reps)
    return best

m = numpy.tril(numpy.random.default_rng(0).normal(size=(3000, 3000)).astype("float32"))
p_old, p_new = peak(old.mirror_covariance_matrix, m), peak(new.mirror_covariance_matrix, m)
print("mirror peak memory / matrix size: old %.1f new %.1f" % (p_old / m.nbytes, p_new / m.nbytes))
r = numpy.random.default_rng(0).uniform(0, 10, 200000)
ta = cpu(new.structure_function_vk, r, .1, 25.) / cpu(old.structure_function_vk, r, .1, 25.)
ts = cpu(new.structure_function_vk, 1.3, .1, 25., reps=2000) / cpu(old.structure_function_vk, 1.3, .1, 25., reps=2000)
print("structure_function_vk CPU time new/old: arrays %.1f x, scalar calls %.1f x" % (ta, ts))
sys.exit(1 if (p_new > 2.5 * m.nbytes or ts > 5) else 0)
