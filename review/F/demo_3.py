"""Minor API narrowings (inputs that used to work and now raise).

(a) commit 659bb1a: circle(radius) with an exact-rational / Decimal radius:
    numpy.multiply(radius, radius, dtype=float) refuses object operands.
(b) commit de6bf89: rebin(a, newshape) with float-valued sizes (IDL style
    rebin(a, 4., 6.)): the old mgrid code accepted them, the new integer index
    arrays become float and the fancy index raises IndexError.
Run from the worktree root: /venv/bin/python /tmp/rev-out/F/demo_3.py
"""
import os, sys, subprocess, types
sys.path.insert(0, os.getcwd())
from fractions import Fraction
from decimal import Decimal
import numpy
from aotools.functions.pupil import circle
from aotools.functions.karhunenLoeve import rebin

def load(path, name):
    src = subprocess.check_output(["git", "show", "597d213:" + path]).decode()
    m = types.ModuleType(name); exec(compile(src, name, "exec"), m.__dict__); return m
import warnings; warnings.simplefilter("ignore")
oldp = load("aotools/functions/pupil.py", "old_pupil")
oldk = load("aotools/functions/karhunenLoeve.py", "old_kl")

failures = 0
for rad in (Fraction(11, 2), Decimal("5.5")):
    expected = circle(5.5, 16)
    assert numpy.array_equal(oldp.circle(rad, 16), expected)
    try:
        ok = numpy.array_equal(circle(rad, 16), expected)
        print("circle(%r, 16) ok=%s" % (rad, ok)); failures += not ok
    except Exception as e:
        print("circle(%r, 16): old returned the radius-5.5 disc; new raises %r" % (rad, e)); failures += 1
a = numpy.arange(6.).reshape(2, 3)
expected = a[numpy.ix_([0, 0, 1, 1], [0, 0, 1, 1, 2, 2])]
assert numpy.array_equal(oldk.rebin(a, (4.0, 6.0)), expected)
try:
    ok = numpy.array_equal(rebin(a, (4.0, 6.0)), expected)
    print("rebin(a, (4.0, 6.0)) ok=%s" % ok); failures += not ok
except Exception as e:
    print("rebin(a, (4.0, 6.0)): old returned the (4, 6) array; new raises %r" % e); failures += 1
print("failures:", failures)
sys.exit(1 if failures else 0)
