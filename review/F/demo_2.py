"""Commit 05f77a2: zernikeRadialFunc(n, m, r) with m > n.

R_n^m is identically 0 for m > n (empty sum); the power-series code returned
zeros, so zernike_nm(1, 3, N) was an all-zero array. The Jacobi form calls
eval_jacobi with degree k = (n-m)//2 < 0, which gives -0.0 for r <= 1 and NaN
for r > 1; zernike_nm evaluates the radial function on the whole square (r up
to sqrt 2) and multiplies by the clip mask, so NaN * 0 = NaN is left in the
corners of the returned mode.
Run from the worktree root: /venv/bin/python /tmp/rev-out/F/demo_2.py
"""
import os, sys, subprocess, types
sys.path.insert(0, os.getcwd())
import numpy
import aotools
from aotools.functions import zernike as new

src = subprocess.check_output(["git", "show", "2101182:aotools/functions/zernike.py"]).decode()
src = src.replace("from . import circle", "from aotools.functions.pupil import circle")
old = types.ModuleType("old_zernike"); exec(compile(src, "old_zernike", "exec"), old.__dict__)

r = numpy.linspace(0, 1.4, 8)
failures = 0
for n, m in [(1, 3), (0, 2), (2, 4), (3, 7)]:
    o = old.zernikeRadialFunc(n, m, r); g = new.zernikeRadialFunc(n, m, r)
    print("R(%d,%d): old %s new %s" % (n, m, o, g))
    failures += not numpy.array_equal(g, numpy.zeros_like(r))      # expectation: identically 0
zo = old.zernike_nm(1, 3, 8); zn = new.zernike_nm(1, 3, 8)
print("zernike_nm(1,3,8): old NaNs %d, new NaNs %d" % (numpy.isnan(zo).sum(), numpy.isnan(zn).sum()))
failures += bool(numpy.isnan(zn).any())
print("failures:", failures)
sys.exit(1 if failures else 0)
