"""Commit 319ef2c: structure_function_vk / stf_vonKarman no longer accept array r0 / L0.

Before the repair r0 and L0 broadcast against the separations like any NumPy
expression (e.g. structure function versus outer scale, or an outer scale held
in a 1-element array); `float(r0)` / `float(L0)` now raise TypeError.
Run from the worktree root: /venv/bin/python /tmp/rev-out/F/demo_1.py
"""
import os, sys, subprocess, types
sys.path.insert(0, os.getcwd())
import numpy
from aotools.turbulence.slopecovariance import structure_function_vk
from aotools.functions.karhunenLoeve import stf_vonKarman

# pre-repair implementation, straight from the snapshot commit
src = subprocess.check_output(["git", "show", "597d213:aotools/turbulence/slopecovariance.py"]).decode()
old = types.ModuleType("old_slopecov"); exec(compile(src, "old_slopecov", "exec"), old.__dict__)

L0s = numpy.array([3., 10., 30., 100.])
r0s = numpy.array([0.1, 0.15, 0.2, 0.25])
cases = {
    "vk(1.0, 0.1, L0 array)":        lambda f: f(1.0, 0.1, L0s),
    "vk(1.0, r0 array, 25.)":        lambda f: f(1.0, r0s, 25.),
    "vk(r array, 0.1, L0 array)":    lambda f: f(numpy.array([.1, .2, .3, .4]), 0.1, L0s),
    "vk(r array, 0.1, array([25.]))": lambda f: f(numpy.array([.1, .2, .3, .4]), 0.1, numpy.array([25.])),
}
failures = 0
for name, call in cases.items():
    expected = call(old.structure_function_vk)          # old behaviour
    # independent expectation: element by element with scalars through the NEW code
    try:
        got = call(structure_function_vk)
        ok = numpy.allclose(got, expected, rtol=1e-9)
        print(name, "->", got, "OK" if ok else "MISMATCH (old %s)" % expected)
        failures += not ok
    except Exception as e:
        print(name, "-> old gave", expected, "; new raises", repr(e))
        failures += 1
# element-wise check that the old broadcast result was right
ref = numpy.array([structure_function_vk(1.0, 0.1, float(L)) for L in L0s])
assert numpy.allclose(old.structure_function_vk(1.0, 0.1, L0s), ref, rtol=1e-9)
try:
    print("stf_vonKarman(0.3, L0 array) ->", stf_vonKarman(0.3, L0s))
except Exception as e:
    print("stf_vonKarman(0.3, L0 array) raises", repr(e)); failures += 1
print("failures:", failures)
sys.exit(1 if failures else 0)
