"""4ea415b (rms_contrast: no in-place normalisation, integer images accepted) is
incomplete for its sibling in the same file: image_contrast() evaluates
(max - min) / (max + min) in the dtype of the image, so for unsigned / narrow integer
camera frames max + min wraps around (uint8: 200 + 100 -> 44) and the Michelson
contrast comes out wrong (2.27 instead of 0.333; it must lie in [0, 1]).
Run from /tmp/rev/D.  Exit 1 = problem present."""
import os, sys, warnings
sys.path.insert(0, os.getcwd())
warnings.simplefilter("ignore")
import numpy as np
from aotools.image_processing import contrast

bad = 0
for dt in (np.uint8, np.int8, np.uint16, np.int16, np.float64):
    hi, lo = (100, 60) if dt is np.int8 else (200, 100) if dt is np.uint8 else (40000, 30000) if dt is np.uint16 else (30000, 10000) if dt is np.int16 else (200., 100.)
    img = np.array([[hi, lo], [lo, hi]], dtype=dt)
    expect = (float(hi) - float(lo)) / (float(hi) + float(lo))
    got = contrast.image_contrast(img)
    flag = "" if abs(got - expect) < 1e-12 else "   <-- WRONG"
    bad += bool(flag)
    print("%-8s image_contrast %.6f expected %.6f%s | rms_contrast %.6f" % (np.dtype(dt).name, got, expect, flag, contrast.rms_contrast(img)))
if bad:
    print("FAIL: image_contrast wraps around on integer images")
    sys.exit(1)
print("ok")
