"""f02dc27 (binImgs accumulates in the dtype numpy.sum would use):
every integer stack is now accumulated AND returned in 64 bit.  For 12-bit camera
frames stored as uint16 and binned 2x2 / 4x4 (max 16*4095 = 65520, no overflow) the
old code was exact; the new one returns uint64 and needs ~4x the peak memory
(~8x for uint8 input), i.e. about 3x (6x) the size of the input stack.
Run from /tmp/rev/D.  Exit 1 = problem present."""
import os, sys, tracemalloc
sys.path.insert(0, os.getcwd())
import numpy as np
from aotools import interpolation as new

rng = np.random.default_rng(0)
stack = rng.integers(0, 4096, size=(64, 512, 512)).astype(np.uint16)   # 33.5 MB
n = 2
ref = stack.reshape(64, 256, n, 256, n).sum((2, 4), dtype=np.uint16)    # exact, fits uint16

def peak(f):
    tracemalloc.start()
    r = f(stack, n)
    p = tracemalloc.get_traced_memory()[1]
    tracemalloc.stop()
    return r, p

r_new, p_new = peak(new.binImgs)
print("input %.1f MB uint16" % (stack.nbytes / 1e6))
print("new : dtype %s, exact %s, peak %.1f MB (%.2f x input)" % (r_new.dtype, np.array_equal(r_new, ref), p_new / 1e6, p_new / stack.nbytes))
try:
    sys.path.insert(0, "/tmp/rev-out/D/old")
    import old_interpolation as old
    r_old, p_old = peak(old.binImgs)
    print("old : dtype %s, exact %s, peak %.1f MB (%.2f x input)" % (r_old.dtype, np.array_equal(r_old, ref), p_old / 1e6, p_old / stack.nbytes))
except Exception as e:
    print("(old module not available: %s)" % e)
# a 2x2 binning needs at most 1/2 + 1/4 of the input in elements; allow a 32-bit accumulator
if p_new > 2.0 * stack.nbytes or r_new.dtype.itemsize > 4:
    print("FAIL: 64-bit accumulators/outputs for a sum that needs 14 bits: peak memory > 2x the input stack")
    sys.exit(1)
print("ok")
