"""c2c46a4 (centre_of_gravity no longer writes into the caller's stack):
numpy.where() drops the mask of a numpy.ma stack, so masked (bad / saturated)
pixels are now included in the thresholded centre of gravity of a stack.
Before the repair the stack branch zeroed pixels by item assignment, which keeps
the mask: the result was the centroid of the valid pixels (and threshold=0 still is).
Run from /tmp/rev/D.  Exit 1 = problem present."""
import os, sys
sys.path.insert(0, os.getcwd())
import numpy as np
from aotools.image_processing import centroiders as new

rng = np.random.default_rng(0)
data = rng.random((3, 8, 8)) * 100
mask = np.zeros(data.shape, bool)
mask[:, :, 6:] = True            # two bad columns ...
data[:, :, 6:] = 5000.           # ... holding saturated values
stack = np.ma.array(data, mask=mask)
thr = 0.3

# independent expectation: valid pixels only, threshold relative to the valid maximum,
# pixels under it zeroed (N-D convention of the function: no subtraction)
valid = np.where(mask, 0., data)
lim = thr * valid.max(-1).max(-1)
kept = np.where(valid < lim[:, None, None], 0., valid)
yy, xx = np.indices(data.shape[-2:])
expect = np.array([(xx * kept).sum((-1, -2)) / kept.sum((-1, -2)),
                   (yy * kept).sum((-1, -2)) / kept.sum((-1, -2))])

got = np.asarray(new.centre_of_gravity(stack.copy(), threshold=thr))
got0 = np.asarray(new.centre_of_gravity(stack.copy(), threshold=0))
print("expected (valid pixels) x:", expect[0])
print("new, threshold=0.3      x:", got[0])
print("new, threshold=0        x:", got0[0], "(mask still honoured here)")
try:
    sys.path.insert(0, "/tmp/rev-out/D/old")
    import old_centroiders as old
    print("old (597d213), thr=0.3  x:", np.asarray(old.centre_of_gravity(stack.copy(), threshold=thr))[0])
except Exception as e:
    print("(old module not available: %s)" % e)
if not np.allclose(got, expect):
    print("FAIL: masked pixels leak into the thresholded centroid of a stack")
    sys.exit(1)
print("ok")
