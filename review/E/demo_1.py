"""
Regression introduced by b100a14 (atmos_conversions._along_axis):
coherenceTime / isoplanaticAngle / rytov_variance raise TypeError for axis=None
(and for a tuple of axes) as soon as one operand is 1-d and the other >1-d.
Before the repair `axis` was only handed to ndarray.sum(), so every value that
sum() accepts worked: e.g. a single profile stored as a (1, L) row (FITS row,
numpy.atleast_2d) reduced with axis=None gave the scalar of the 1-d call.

Run from the worktree:  cd /tmp/rev/E && /venv/bin/python /tmp/rev-out/E/demo_1.py
Exit status 0 = fine, 1 = problem present.
"""
import os, sys, importlib.util
import numpy
sys.path.insert(0, os.getcwd())
from aotools.turbulence import atmos_conversions as new

old = None
p = os.path.join(os.path.dirname(os.path.abspath(__file__)), "old", "old_atmos_conversions.py")
if os.path.exists(p):      # pre-repair module (git show 597d213:...), optional
    spec = importlib.util.spec_from_file_location("old_atmos_conversions", p)
    old = importlib.util.module_from_spec(spec); spec.loader.exec_module(old)

L = 6
h = numpy.linspace(200., 16000., L)
v = numpy.linspace(5., 35., L)
cn2 = numpy.array([4., 2., 1., .5, .8, .3]) * 1e-14
row = cn2[None, :]                       # one profile stored as a (1, L) table
cube = numpy.stack([row, 2 * row])       # (2, 1, L)

bad = 0
for name, x in (("coherenceTime", v), ("isoplanaticAngle", h), ("rytov_variance", h)):
    expect = getattr(new, name)(cn2, x)                       # plain 1-d call
    # tuple case: expected value from the definition, J summed over both axes
    for label, args, kw, ref in (
            ("(1,L) table, axis=None", (row, x), dict(axis=None), expect),
            ("(1,L) table, axis=(0,1)", (row, x), dict(axis=(0, 1)), expect),
            ("(2,1,L) cube, axis=(1,2)", (cube, x), dict(axis=(1, 2)),
             numpy.array([getattr(new, name)(cn2, x), getattr(new, name)(2 * cn2, x)]))):
        o = None
        if old is not None:
            o = getattr(old, name)(*args, **kw)
        try:
            n = getattr(new, name)(*args, **kw)
            ok = numpy.allclose(n, ref, rtol=1e-12, atol=0)
            msg = repr(n)
        except Exception as e:
            ok = False
            msg = "%s: %s" % (type(e).__name__, e)
        print("%-17s %-26s expected %s | old %s | new %s -> %s" % (
            name, label, ref, o, msg, "ok" if ok else "PROBLEM"))
        if old is not None:
            assert numpy.allclose(o, ref, rtol=1e-12, atol=0)   # old was right
        bad += not ok
print("problems:", bad)
sys.exit(1 if bad else 0)
