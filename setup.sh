#!/bin/bash
# Offline setup: make sure Hypothesis is importable beside the repository's packages.
set -e
PY=${VERIF_PYTHON:-/venv/bin/python}
if ! $PY -c "import hypothesis" 2>/dev/null; then
  PIP_NO_INDEX=1 $PY -m pip install --no-index --find-links /opt/veriftools/wheels hypothesis
fi
$PY -c "import hypothesis, numpy, scipy; print('setup ok: hypothesis', hypothesis.__version__)"
