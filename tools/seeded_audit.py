#!/venv/bin/python
"""Re-evaluate every archived seeded change against the CURRENT /repo (not a registered check).
usage: tools/seeded_audit.py [--jobs 3] [--only C07]
For each seeded/<ID>/: copy /repo to a scratch directory, apply patch.diff (older patches may no longer apply after
the repairs: reported as such), run the demo (must fail) and the property's quick check (must report a VIOLATION).
Writes seeded/last_audit.json and prints one line per change."""
import argparse, json, os, subprocess, sys
from concurrent.futures import ThreadPoolExecutor
V = os.path.dirname(os.path.dirname(os.path.abspath(__file__)))
ap = argparse.ArgumentParser()
ap.add_argument("--jobs", type=int, default=3)
ap.add_argument("--only")
a = ap.parse_args()
dirs = sorted(d for d in os.listdir(os.path.join(V, "seeded")) if os.path.isfile(os.path.join(V, "seeded", d, "patch.diff")) and (not a.only or d.startswith(a.only)))


def one(d):
    meta = json.load(open(os.path.join(V, "seeded", d, "meta.json")))
    pid = meta["property"]
    chk = pid
    cmd_ = (meta.get("check_run_after_completion") or {}).get("command", "")
    if "./check " in cmd_:
        chk = cmd_.split("./check ")[1].split()[0]
    out = subprocess.run([os.path.join(V, "tools", "seedcheck.py"), pid, "--skip-tests", "--check", chk, "--src", os.path.join(V, "seeded", d)], capture_output=True, text=True).stdout
    try:
        r = json.loads(out)
    except Exception:
        r = {"error": out[-300:]}
    res = {"change": d, "check": chk, "patch_applies": r.get("patch_applies"), "demo_unpatched_rc": r.get("demo_unpatched_rc"), "demo_patched_rc": r.get("demo_patched_rc"),
           "detected": r.get("detected"), "first": (r.get("first_violations") or [""])[0][:160]}
    state = "NO-LONGER-APPLIES" if not r.get("patch_applies") else ("DETECTED" if r.get("detected") else "MISSED")
    print("%-8s %-18s demo %s->%s  %s" % (d, state, r.get("demo_unpatched_rc"), r.get("demo_patched_rc"), res["first"]), flush=True)
    return res


with ThreadPoolExecutor(a.jobs) as ex:
    results = list(ex.map(one, dirs))
json.dump(results, open(os.path.join(V, "seeded", "last_audit.json"), "w"), indent=1)
ap_ = [r for r in results if r["patch_applies"]]
print("%d changes: %d still apply to the current tree, %d of those detected, %d missed; %d no longer apply" % (
    len(results), len(ap_), sum(1 for r in ap_ if r["detected"]), sum(1 for r in ap_ if not r["detected"]), len(results) - len(ap_)))
sys.exit(1 if any(not r["detected"] for r in ap_) else 0)
