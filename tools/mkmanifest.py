#!/venv/bin/python
"""Regenerate MANIFEST.json from tools/manifest_meta.json + the set of built property modules."""
import json, os, sys
V = os.path.dirname(os.path.dirname(os.path.abspath(__file__)))
meta = json.load(open(os.path.join(V, "tools", "manifest_meta.json")))
props = [json.loads(l) for l in open(os.path.join(V, "properties.jsonl"))]
checks, na = [], []
for p in props:
    pid = p["id"]
    built = os.path.exists(os.path.join(V, "vt", "props", pid.lower() + ".py"))
    m = meta["checks"].get(pid)
    if built and m:
        checks.append({
            "property_id": pid,
            "quick_cmd": "./check %s quick" % pid,
            "thorough_cmd": "./check %s thorough" % pid,
            "evidence_file": "evidence/%s.json" % pid,
            "replay_cmd_template": "./check %s --replay {path}" % pid,
            "engine": "hypothesis-pbt",
            "level_claimed": {"category": "exploration", "text": m["text"], "design_ref": "DESIGN.md section 4, %s" % pid},
            "level_note": m["note"],
            "technique": m["technique"],
        })
    else:
        na.append({"property_id": pid, "reason": meta.get("na", {}).get(pid, "check not built yet in this session (planned: DESIGN.md section 4)")})
man = {
    "version": 1,
    "setup_cmd": "./setup.sh",
    "hooks": {"guard": "AOTOOLS_VERIF", "enable": "none needed: checks import /repo's working tree directly (pure Python); no guarded source hooks exist",
              "baseline_off_cmd": "cd /repo && /venv/bin/python -m pytest -ra -q -p no:cacheprovider --timeout=900 --continue-on-collection-errors",
              "source_commits": [], "add_only": True},
    "engines": [{"name": "hypothesis-pbt", "path": "vt/", "serves_properties": [c["property_id"] for c in checks],
                 "kind_free_text": "Hypothesis 6.168 (@given + RuleBasedStateMachine) and exhaustive enumeration of finite sub-domains, explicit independent oracles, sharded over 16 processes; see DESIGN.md section 2"}],
    "checks": checks,
    "not_applicable": na,
    "notes": meta.get("notes", ""),
}
json.dump(man, open(os.path.join(V, "MANIFEST.json"), "w"), indent=1)
print("MANIFEST: %d checks, %d not_applicable" % (len(checks), len(na)))
