#!/venv/bin/python
"""Save a hand-built case as a corpus / known-finding reproduction file.
usage: tools/savecase.py <PROP> <law> <relative-out-path> <python-expression-for-case> [note]"""
import json, os, sys
sys.path.insert(0, os.path.dirname(os.path.dirname(os.path.abspath(__file__))))
import numpy as np
from vt import core
prop, law, out, expr = sys.argv[1:5]
case = eval(expr, {"np": np, "numpy": np})
rec = {"property": prop, "law": law, "case": core._enc(case), "message": sys.argv[5] if len(sys.argv) > 5 else "", "seed": 0, "repo_head": core.repo_head()}
path = os.path.join(core.VERIF_DIR, out)
os.makedirs(os.path.dirname(path), exist_ok=True)
json.dump(rec, open(path, "w"), indent=1, sort_keys=True)
print("wrote", out)
