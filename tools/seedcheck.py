#!/venv/bin/python
"""Evaluate one seeded change: tools/seedcheck.py CXX [--src /tmp/seed-out/CXX | seeded/CXX] [--tier quick]
Copies /repo's working tree to a scratch dir outside /repo and /verif, confirms the demo passes there, applies
patch.diff, confirms the repository's tests still pass and the demo now fails, runs the property's check against the
scratch copy (VERIF_REPO), reports whether it raised a VIOLATION, deletes the scratch copy."""
import argparse, json, os, shutil, subprocess, sys, tempfile, time

V = os.path.dirname(os.path.dirname(os.path.abspath(__file__)))
ap = argparse.ArgumentParser()
ap.add_argument("pid")
ap.add_argument("--src")
ap.add_argument("--tier", default="quick")
ap.add_argument("--check", help="run this property's check instead (default: pid)")
ap.add_argument("--skip-tests", action="store_true")
a = ap.parse_args()
src = os.path.abspath(a.src) if a.src else os.path.join(V, "seeded", a.pid)
scratch = tempfile.mkdtemp(prefix="vt-seed-", dir="/tmp")
res = {"property": a.pid, "source": src}
try:
    subprocess.run(["rsync", "-a", "--exclude", ".git", "--exclude", "__pycache__", "/repo/", scratch + "/"], check=True)
    env = dict(os.environ, PYTHONDONTWRITEBYTECODE="1", MPLBACKEND="Agg")
    demo = os.path.join(src, "demo.py")
    d0 = subprocess.run(["/venv/bin/python", demo], cwd=scratch, env=env, capture_output=True, text=True, timeout=1800)
    res["demo_unpatched_rc"] = d0.returncode
    p = subprocess.run(["patch", "-p1", "-i", os.path.join(src, "patch.diff")], cwd=scratch, capture_output=True, text=True)
    res["patch_applies"] = p.returncode == 0
    if p.returncode != 0:
        res["patch_output"] = (p.stdout + p.stderr)[-600:]
    else:
        if not a.skip_tests:
            t = subprocess.run(["/venv/bin/python", "-m", "pytest", "-q", "-p", "no:cacheprovider", "--timeout=900"], cwd=scratch, env=env, capture_output=True, text=True)
            res["tests_tail"] = t.stdout.strip().splitlines()[-1] if t.stdout.strip() else t.stderr[-200:]
        d1 = subprocess.run(["/venv/bin/python", demo], cwd=scratch, env=env, capture_output=True, text=True, timeout=1800)
        res["demo_patched_rc"] = d1.returncode
        res["demo_patched_tail"] = (d1.stdout + d1.stderr).strip()[-300:]
        t0 = time.time()
        pid = a.check or a.pid
        pr = subprocess.Popen([os.path.join(V, "check"), pid, a.tier, "--no-evidence"], env=dict(env, VERIF_REPO=scratch, VERIF_SEED="1"), stdout=subprocess.PIPE, stderr=subprocess.PIPE, text=True, start_new_session=True)
        try:
            so, se = pr.communicate(timeout=3000)
        except subprocess.TimeoutExpired:
            import signal
            os.killpg(pr.pid, signal.SIGKILL)
            so, se = pr.communicate()
        res["check"] = pid + " " + a.tier
        res["check_rc"] = pr.returncode
        res["check_wall_s"] = round(time.time() - t0, 1)
        res["detected"] = pr.returncode == 1 and "VIOLATION" in so
        msgs = [l.strip()[:260] for l in so.splitlines() if l.startswith("  law ") and "evals=" not in l]
        res["first_violations"] = msgs[:3]
        if pr.returncode == 2:
            res["stderr_tail"] = se[-600:]
finally:
    shutil.rmtree(scratch, ignore_errors=True)
print(json.dumps(res, indent=1))
