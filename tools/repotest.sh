#!/bin/bash
# Run the repository's pinned test-suite and verify that all 83 baseline tests still pass.
cd /repo && /venv/bin/python -m pytest -q -p no:cacheprovider --timeout=900 --continue-on-collection-errors --junitxml=/tmp/vt-junit.xml >/tmp/vt-pytest.log 2>&1
/venv/bin/python - <<'PY'
import json, xml.etree.ElementTree as ET
base = set(json.load(open('/root/.vp/BASELINE.json'))['stable_pass'])
root = ET.parse('/tmp/vt-junit.xml').getroot()
passed = set()
for tc in root.iter('testcase'):
    if not any(ch.tag in ('failure', 'error', 'skipped') for ch in tc):
        passed.add(tc.get('classname') + '::' + tc.get('name'))
missing = sorted(base - passed)
print("baseline 83: %d pass, missing %s; total passing now %d" % (len(base & passed), missing, len(passed)))
raise SystemExit(1 if missing else 0)
PY
rc=$?; rm -f /tmp/vt-junit.xml /tmp/vt-pytest.log; exit $rc
