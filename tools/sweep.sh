#!/bin/bash
# Soundness sweep: run every registered quick check at many VERIF_SEED values on the unchanged tree and report
# every non-zero exit (a check that alarms on the unchanged tree is broken).  usage: tools/sweep.sh <first> <last> [IDs...]
cd "$(dirname "$0")/.."
first=${1:-1}; last=${2:-10}; shift 2 || true
ids=${@:-C01 C02 C03 C04 C05 C06 C07 C08 C09 C10 C11 C12 C13 C14 C15 C16 C17 C18 C19 C20}
bad=0
for s in $(seq $first $last); do
  for id in $ids; do
    out=$(VERIF_SEED=$s ./check $id quick --no-evidence 2>&1); rc=$?
    if [ $rc -ne 0 ]; then bad=$((bad+1)); echo "ALARM seed=$s $id rc=$rc"; echo "$out" | grep -i "violation\|error" | head -4 | cut -c1-400; fi
  done
  echo "seed $s done (alarms so far: $bad)"
done
echo "sweep finished: $bad alarms"
