#!/venv/bin/python
"""Evaluate and store a round of sub-agent seeded changes.
usage: tools/keepseeds.py <round> <src-root> <needs.json>      (src-root/CXX/{patch.diff,demo.py,notes.md})
Runs tools/seedcheck.py for every property, copies the files to seeded/CXX-<round>/ with meta.json, appends a table to
seeded/README.md and prints one line per property."""
import json, os, re, shutil, subprocess, sys
V = os.path.dirname(os.path.dirname(os.path.abspath(__file__)))
rnd, root, needs_file = sys.argv[1], sys.argv[2], sys.argv[3]
needs = json.load(open(needs_file))
rows = []
for i in range(1, 21):
    pid = "C%02d" % i
    src = os.path.join(root, pid)
    if not os.path.exists(os.path.join(src, "patch.diff")):
        print(pid, "no patch"); continue
    out = subprocess.run([os.path.join(V, "tools", "seedcheck.py"), pid, "--src", src], capture_output=True, text=True).stdout
    try:
        r = json.loads(out)
    except Exception:
        print(pid, "seedcheck output unreadable", out[-300:]); continue
    ok = r.get("demo_unpatched_rc") == 0 and r.get("patch_applies") and r.get("demo_patched_rc") not in (0, None) and "passed" in str(r.get("tests_tail")) and "failed" not in str(r.get("tests_tail"))
    print(pid, "valid" if ok else "INVALID", "detected=%s" % r.get("detected"), str(r.get("tests_tail"))[:24], (r.get("first_violations") or [""])[0][:150], flush=True)
    if not ok:
        json.dump(r, open(os.path.join(src, "result.json"), "w"), indent=1)
        continue
    dst = os.path.join(V, "seeded", "%s-%s" % (pid, rnd))
    os.makedirs(dst, exist_ok=True)
    for f in ("patch.diff", "demo.py", "notes.md"):
        shutil.copy(os.path.join(src, f), os.path.join(dst, f))
    files = sorted(set(re.findall(r"^\+\+\+ b/(\S+)", open(os.path.join(src, "patch.diff")).read(), re.M)))
    meta = {"property": pid, "round": int(rnd), "files_changed": files, "needs_to_manifest": needs.get(pid, "see notes.md"),
            "origin": "written by a fresh sub-agent given only the property text, its own scratch worktree and one-line descriptions of the earlier rounds' ideas to avoid (nothing from /verif)",
            "verified_by_me": {"how": "tools/seedcheck.py %s --src seeded/%s-%s" % (pid, pid, rnd), "demo_on_unchanged_tree_rc": r.get("demo_unpatched_rc"), "patch_applies": r.get("patch_applies"),
                               "repo_tests_with_patch": r.get("tests_tail"), "demo_with_patch_rc": r.get("demo_patched_rc")},
            "check_run_at_first_evaluation": {"command": "VERIF_REPO=<scratch> ./check %s quick --no-evidence" % pid, "exit_code": r.get("check_rc"), "detected": r.get("detected"),
                                              "wall_s": r.get("check_wall_s"), "first_violations": r.get("first_violations")}}
    json.dump(meta, open(os.path.join(dst, "meta.json"), "w"), indent=1)
    rows.append((pid, files, meta["needs_to_manifest"], r.get("detected"), (r.get("first_violations") or [""])[0].split(":")[0].replace("law ", "")))
with open(os.path.join(V, "seeded", "README.md"), "a") as f:
    f.write("\n## Round %s (`seeded/CXX-%s/`), as first evaluated\n\n| property | file(s) | needs, to manifest | detected by quick check at first evaluation | law |\n|---|---|---|---|---|\n" % (rnd, rnd))
    for pid, files, need, det, law in rows:
        f.write("| %s | %s | %s | %s | %s |\n" % (pid, ", ".join(x.replace("aotools/", "") for x in files), need, "yes" if det else "NO", law))
