#!/venv/bin/python
"""Rewrite the table of DESIGN.md section 4.0 from evidence/*.json (run after regenerating the evidence)."""
import json, os, re
V = os.path.dirname(os.path.dirname(os.path.abspath(__file__)))
rows = []
for i in range(1, 21):
    pid = "C%02d" % i
    c = json.load(open(os.path.join(V, "evidence", pid + ".json")))["coverage"]
    laws = ", ".join("%s (%d)" % (k, v["evaluations"]) for k, v in sorted(c["per_law"].items()))
    rows.append("| %s | %d | %d | %s |" % (pid, c["evaluations"], c["distinct_nontrivial"], laws))
p = os.path.join(V, "DESIGN.md")
s = open(p).read()
head = "| property | evaluations | distinct non-trivial | laws (cases) |\n|---|---|---|---|\n"
a = s.index(head) + len(head)
b = s.index("\n\n", a)
s = s[:a] + "\n".join(rows) + s[b:]
open(p, "w").write(s)
print("inventory rewritten: %d laws" % sum(r.count("(") for r in rows))
