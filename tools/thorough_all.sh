#!/bin/bash
# Run every registered thorough check once on the unchanged tree (soundness of the deep tiers). usage: tools/thorough_all.sh [seed] [IDs...]
cd "$(dirname "$0")/.."
seed=${1:-1}; shift || true
ids=${@:-C01 C02 C03 C04 C05 C06 C07 C08 C09 C10 C11 C12 C13 C14 C15 C16 C17 C18 C19 C20}
bad=0
for id in $ids; do
  t0=$(date +%s)
  out=$(VERIF_SEED=$seed ./check $id thorough --no-evidence 2>&1); rc=$?
  echo "$id thorough seed=$seed rc=$rc $(( $(date +%s) - t0 ))s $(echo "$out" | grep -m1 'evaluations')"
  if [ $rc -ne 0 ]; then bad=$((bad+1)); echo "$out" | grep -i "violation\|error" | head -6 | cut -c1-400; fi
done
echo "thorough sweep finished: $bad alarms"
