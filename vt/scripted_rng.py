"""A numpy Generator whose normal() draws are prescribed by the harness.

numpy.random.default_rng(g) returns g unchanged when g is a Generator instance, and Generator can be subclassed in
Python, so passing an instance as `seed` / `random_seed` turns every screen generator into a deterministic linear
map of its draws.  Requests (sizes) are recorded so that a check can assert how many draws were consumed.
"""
import numpy as np


class Scripted(np.random.Generator):
    def __init__(self):
        super().__init__(np.random.PCG64(0))
        self.queue = np.zeros(0)
        self.requests = []
        self.other_calls = 0

    def feed(self, values):
        self.queue = np.concatenate([self.queue, np.asarray(values, dtype=np.float64).ravel()])

    def clear(self):
        self.queue = np.zeros(0)

    def normal(self, loc=0.0, scale=1.0, size=None):
        self.requests.append(size)
        n = int(np.prod(size)) if size is not None else 1
        take = self.queue[:n]
        self.queue = self.queue[n:]
        vals = np.zeros(n)
        vals[:len(take)] = take
        out = loc + scale * vals
        return out.reshape(size) if size is not None else float(out[0])

    def standard_normal(self, size=None, dtype=np.float64, out=None):
        return self.normal(0.0, 1.0, size)
