"""C08 - all closed-form turbulence statistics describe one von Karman model."""
import math
import warnings

import numpy as np
from hypothesis import strategies as st

from ..core import EPS32, given_law, plain_law
from .. import gen
from ..oracles import vk

RULE = ("r0 log-uniform [0.01,5], L0 log-uniform [0.1,1e10] (the large-L0 tail on purpose), separations as scalars, lists, "
        "float64 and float32 arrays with r/L0 log-uniform in [1e-6,1e3] plus forced exact zeros; point sets of 2-40 "
        "points in the plane incl. coincident and collinear points. Oracles: independent float64 closed forms (series for "
        "small arguments), numerical Hankel transform of the screen spectrum, scaling / monotonicity / saturation "
        "relations, eigenvalues. Non-trivial = array input spanning r < L0/100 and r > L0, or a point set with >= 5 "
        "points, or an exact zero separation. Distinct = canonical JSON."
        " Also: separations at which 2 pi r / L0 is a round number to the last bit (and their neighbours)."
        " Fortran-ordered and transposed-view 2-D separation arrays.")
ASSUMPTIONS = ["published constants are rounded: 0.17253 vs 0.172629 (5.7e-4), 0.023 vs 0.022896 (4.6e-3), 6.88 vs 6.8839 (5.7e-4): ratios must lie in the rounding band AND be constant across arguments",
               "phase_covariance is evaluated in double precision at the separations it is given (since fix c71a5fd): tolerance 1e-12 of B(0); positive semi-definite to n 64 eps64 B(0)",
               "structure_function_vk accepts floats and ndarrays (not lists), phase_covariance also lists"]


TOLB = 1e-12


def T():
    from aotools.turbulence import turb, slopecovariance
    from aotools.functions import karhunenLoeve
    return turb, slopecovariance, karhunenLoeve


def quiet(f, *a):
    with warnings.catch_warnings():
        warnings.simplefilter("ignore")
        with np.errstate(all="ignore"):
            return f(*a)


@st.composite
def sep_cases(draw):
    r0 = draw(gen.logfloat(0.01, 5.0))
    L0 = draw(gen.logfloat(0.1, 1e10))
    n = draw(st.integers(1, 12))
    rel = [draw(gen.logfloat(1e-6, 1e3)) for _ in range(n)]
    zeros = draw(st.sampled_from([0, 0, 1, 2]))
    form = draw(st.sampled_from(["scalar", "array64", "array64", "array32", "list", "matrix"]))
    # separations at which the dimensionless argument 2 pi r / L0 of the closed forms is (to the last bit) a round number:
    # the natural places for an implementation to switch between a series and an asymptotic form
    xs = draw(st.lists(st.sampled_from([1.0, 0.5, 2.0, 0.25, 4.0, 0.75, 3.0, 10.0, 0.1, 1e-2, 1e-3]), max_size=2))
    return {"r0": r0, "L0": L0, "rel": sorted(rel), "zeros": zeros, "form": form, "k": draw(gen.logfloat(0.2, 5.0)), "xs": xs}


def sep_body(ctx, case):
    turb, sc, kl = T()
    r0, L0, form = case["r0"], case["L0"], case["form"]
    r = np.array([0.0] * case["zeros"] + [x * L0 for x in case["rel"]])
    if case.get("xs"):
        sp = []
        for x in case["xs"]:
            r_ = x * L0 / (2 * math.pi)
            sp += [float(np.nextafter(r_, 0.0)), r_, float(np.nextafter(r_, np.inf)), x * L0, x * L0 / math.pi]
        r = np.concatenate([np.array(sp), r]) if form == "scalar" else np.concatenate([r, np.array(sp)])
        ctx.classes["round_dimensionless_arguments"] += 1
    if form == "scalar":
        r = r[:1]
    if form == "matrix":
        # a square, NON-symmetric 2-D array of separations (e.g. cross-separations of two point sets)
        k_ = max(2, int(math.isqrt(len(r))))
        r = np.resize(r, k_ * k_).reshape(k_, k_)
    wide = bool(np.any((r > 0) & (r < L0 / 100)) and np.any(r > L0))
    ctx.case(case, nontrivial=wide or bool(np.any(r == 0)), classes=[form, "has_zero" if np.any(r == 0) else "no_zero", "L0_gt_1e5" if L0 > 1e5 else "L0_le_1e5", "wide" if wide else "narrow"])
    B0 = float(vk.B(0.0, r0, L0))
    Dx = vk.D(r, r0, L0)
    Bx = vk.B(r, r0, L0)

    def arg(a, allow_list=True):
        if form == "scalar":
            return float(a[0])
        if form == "array32":
            return a.astype(np.float32)
        if form == "list" and allow_list:
            return [float(v) for v in a]
        return a.copy()

    if form == "matrix":
        flat_r = r
        covm = np.asarray(quiet(turb.phase_covariance, r.copy(), r0, L0), dtype=np.float64)
        ctx.require(covm.shape == r.shape, "phase_covariance of a 2-D separation array: shape %s" % (covm.shape,))
        ctx.close(covm, vk.B(r, r0, L0), TOLB, "phase_covariance on a square non-symmetric 2-D separation array is element-wise", scale=B0, name="B matrix elementwise")
        # the same matrix in another memory layout (Fortran order, a transposed view as cdist(Q, P).T gives it): element-wise too
        for lay_name, lay in (("Fortran-ordered", np.asfortranarray(r)), ("transposed-view", np.ascontiguousarray(r.T).T)):
            for fname, ff, arg3 in (("structure_function_vk", sc.structure_function_vk, (r0, L0)), ("phase_covariance", turb.phase_covariance, (r0, L0)), ("stf_vonKarman", kl.stf_vonKarman, (L0,))):
                cval = np.asarray(quiet(ff, r.copy(), *arg3), dtype=np.float64)
                lval = np.asarray(quiet(ff, lay.copy(order="K") if lay_name == "Fortran-ordered" else lay, *arg3), dtype=np.float64)
                ctx.require(lval.shape == cval.shape and bool(np.array_equal(lval, cval, equal_nan=True)), "%s of a %s 2-D separation array differs from the C-ordered array with the same elements" % (fname, lay_name))
        dm = np.asarray(quiet(sc.structure_function_vk, r.copy(), r0, L0), dtype=np.float64)
        ctx.close(dm, np.asarray(quiet(sc.structure_function_vk, r.ravel().copy(), r0, L0), dtype=np.float64).reshape(r.shape), 1e-15, "structure_function_vk on a 2-D array is element-wise", scale=float(np.max(np.abs(dm))) or 1.0, name="D matrix elementwise")
        r = r.ravel()
        Dx = vk.D(r, r0, L0)
        Bx = vk.B(r, r0, L0)
        form = "array64"

    # --- phase covariance vs the independent closed form (float32 working precision)
    a = arg(r)
    a0 = np.array(a, copy=True) if isinstance(a, np.ndarray) else None
    cov = np.atleast_1d(np.asarray(quiet(turb.phase_covariance, a, r0, L0), dtype=np.float64))
    ctx.require(cov.shape == r.shape, "phase_covariance output shape %s for input %s" % (cov.shape, r.shape))
    ctx.require(bool(np.all(np.isfinite(cov))), "phase_covariance not finite (r=%r, r0=%r, L0=%r): %r" % (r.tolist(), r0, L0, cov.tolist()))
    r32 = r.astype(np.float32).astype(np.float64)
    seen = r32 if form == "array32" else r                   # the separations the function is given (evaluated in double precision)
    ctx.close(cov, vk.B(seen, r0, L0), TOLB, "phase_covariance vs independent von Karman covariance", scale=B0, name="B vs oracle")
    # --- structure function (slope-covariance copy) vs closed form: ratio in the rounding band and constant
    s = arg(r, allow_list=False)
    d = np.atleast_1d(np.asarray(quiet(sc.structure_function_vk, s, r0, L0), dtype=np.float64))
    ctx.require(d.shape == r.shape, "structure_function_vk output shape")
    ctx.require(bool(np.all(np.isfinite(d))), "structure_function_vk not finite at r=%r (r0=%r, L0=%r): %r" % (r.tolist(), r0, L0, d.tolist()))
    f32 = form == "array32"
    rs = r.astype(np.float32).astype(np.float64) if f32 else r
    Dxs = vk.D(rs, r0, L0)
    pos = rs > 0
    KR = 0.17253 / (2 * vk.B0_COEF)
    ctx.require(abs(KR - 1) < 1e-3, "rounding band")
    # D is judged on its own scale: 1e-9 of D(r) (the problem is well conditioned - a cancellation-free evaluation of
    # 1 - x^nu K_nu(x) by its ascending series is good to 1e-14); separations stored as float32 are exact numbers too
    tolabs = 1e-300
    err = np.abs(d - KR * Dxs)
    bad = err > 1e-9 * Dxs + tolabs
    ctx.residual("D_vk minus (0.17253/0.172629) D_exact, in units of tolerance", float(np.max(err / (1e-9 * Dxs + tolabs))), 1.0)
    ctx.require(not bad.any(), "structure_function_vk(r) != (0.17253/0.172629) * exact von Karman D(r) at r=%r: got %r expected %r (r0=%r L0=%r)" % (
        rs[bad][:1].tolist(), d[bad][:1].tolist(), (KR * Dxs)[bad][:1].tolist(), r0, L0))
    ctx.require(bool(np.all(np.abs(d[~pos]) <= tolabs)), "structure function at zero separation is %r, expected 0" % d[~pos].tolist())
    # --- D == 2 (B(0) - B(r))
    cov0 = float(np.asarray(quiet(turb.phase_covariance, 0.0, r0, L0)))
    ctx.require(math.isfinite(cov0), "phase_covariance(0, r0=%r, L0=%r) = %r" % (r0, L0, cov0))
    lhs = d
    rhs = 2 * (cov0 - cov)
    tol = 1e-3 * np.abs(KR * vk.D(seen, r0, L0)) + (64 * EPS32 if f32 else 1e-13) * 2 * B0 + np.abs(KR * (vk.D(seen, r0, L0) - Dxs))
    ctx.require(bool(np.all(np.abs(lhs - rhs) <= tol)), "D(r) != 2(B(0)-B(r)): %r vs %r (r=%r r0=%r L0=%r)" % (lhs.tolist(), rhs.tolist(), r.tolist(), r0, L0))
    # --- monotone, saturation, r0 scaling
    order = np.argsort(rs, kind="stable")
    ds = d[order]
    ctx.require(bool(np.all(np.diff(ds) >= -(1e-12 * np.abs(ds[1:]) + tolabs))), "structure function decreases with separation: %r at r=%r" % (ds.tolist(), rs[order].tolist()))
    far = rs >= 50 * L0
    if far.any():
        ctx.close(d[far], np.full(int(far.sum()), 0.17253 * (L0 / r0) ** (5.0 / 3)), 1e-9 if not f32 else 1e-5, "structure function saturates at 0.17253 (L0/r0)^(5/3)", name="saturation")
    k = case["k"]
    dk = np.atleast_1d(np.asarray(quiet(sc.structure_function_vk, s, r0 * k, L0), dtype=np.float64))
    ctx.close(dk, d * k ** (-5.0 / 3), 1e-12, "structure function scales as r0^(-5/3)", scale=float(np.max(np.abs(d))) * k ** (-5.0 / 3) or 1.0, name="r0 scaling D")
    ck = np.atleast_1d(np.asarray(quiet(turb.phase_covariance, arg(r), r0 * k, L0), dtype=np.float64))
    ctx.close(ck, cov * k ** (-5.0 / 3), 1e-13, "phase covariance scales as r0^(-5/3)", scale=B0 * k ** (-5.0 / 3), name="r0 scaling B")
    # --- Kolmogorov limit (trend): |D_vk/D_kolm - 1| <= 1.6 (r/L0)^(1/3) for r/L0 <= 1e-3 and the ratio grows with L0
    smallr = pos & (rs / L0 <= 1e-3) & (rs / L0 >= 1e-5) & (not f32)
    if smallr.any():
        dkol = np.asarray(sc.structure_function_kolmogorov(rs[smallr], r0), dtype=np.float64)
        ratio = d[smallr] / dkol
        ctx.require(bool(np.all(np.abs(ratio - 1) <= 1.6 * (rs[smallr] / L0) ** (1.0 / 3) + 1e-3)), "von Karman D does not tend to 6.88 (r/r0)^(5/3): ratio %r at r/L0=%r" % (ratio.tolist(), (rs[smallr] / L0).tolist()))
        d2 = np.atleast_1d(np.asarray(quiet(sc.structure_function_vk, rs[smallr], r0, L0 * 8), dtype=np.float64))
        ctx.require(bool(np.all(d2 / dkol >= ratio - 1e-9)), "D_vk/D_kolmogorov does not increase with L0")
    # --- copies agree
    if not f32:
        rr = rs[pos]
        if rr.size:
            a1 = np.asarray(quiet(kl.stf_vonKarman, rr, L0), dtype=np.float64)
            a2 = np.asarray(quiet(sc.structure_function_vk, rr, 1.0, L0), dtype=np.float64)
            ctx.close(a1, a2, 1e-12, "KL copy stf_vonKarman(r, L) == structure_function_vk(r, 1, L)", scale=float(np.max(np.abs(a2))) or 1.0, name="KL vk copy")
            k1 = np.asarray(kl.stf_kolmogorov(rr), dtype=np.float64)
            k2 = np.asarray(sc.structure_function_kolmogorov(rr, 1.0), dtype=np.float64)
            ctx.close(k1 / k2, np.full(rr.shape, 6.8839 / 6.88), 1e-12, "Kolmogorov copies differ only by the rounding of 6.88", name="kolmogorov copies")
            ctx.close(k2, 6.88 * rr ** (5.0 / 3), 1e-13, "structure_function_kolmogorov == 6.88 r^(5/3)", name="kolmogorov power law")
            yao = rr[rr / L0 <= 0.1]
            if yao.size:
                y = np.asarray(kl.stf_vonKarman_yao(yao, L0), dtype=np.float64)
                e = np.asarray(vk.D(yao, 1.0, L0))
                ctx.require(bool(np.all(np.abs(y / e - 1) <= 5e-3)), "stf_vonKarman_yao differs from the von Karman structure function by more than 0.5%% for r/L <= 0.1: %r" % (y / e).tolist())
        z = np.atleast_1d(np.asarray(quiet(kl.stf_vonKarman, np.array([0.0, L0]), L0), dtype=np.float64))
        ctx.require(z[0] == 0 or abs(z[0]) <= 4e-15 * 0.17253 * L0 ** (5.0 / 3), "KL copy stf_vonKarman(0, L) = %r, expected 0" % z[0])
    if a0 is not None:
        ctx.equal(a, a0, "phase_covariance modified its argument")


# ------------------------------------------------------------------ Hankel transform of the screen spectrum

@st.composite
def hankel_cases(draw):
    return {"r0": draw(gen.logfloat(0.02, 2.0)), "L0": draw(gen.logfloat(0.5, 1e4)), "rel": draw(gen.logfloat(1e-4, 30.0)), "rel2": draw(gen.logfloat(1e-4, 30.0))}


def hankel_body(ctx, case):
    turb, sc, _ = T()
    r0, L0 = case["r0"], case["L0"]
    ctx.case(case, nontrivial=True, classes=["r_gt_L0" if case["rel"] > 1 else "r_lt_L0"])
    ratios = []
    for rel in (case["rel"], case["rel2"]):
        r = rel * L0
        h = vk.hankel_D(r, r0, L0, c=0.023)              # spectrum used to generate screens (C07 asserts the screens have it)
        d = float(np.asarray(quiet(sc.structure_function_vk, r, r0, L0)))
        ratios.append(h / d)
        cov0 = float(np.asarray(quiet(turb.phase_covariance, 0.0, r0, L0)))
        covr = float(np.asarray(quiet(turb.phase_covariance, r, r0, L0)))
        if rel >= 0.05:
            hb = 2 * (cov0 - covr)
            ctx.require(abs(h / hb - 0.023 / vk.C_PSD) <= 2e-5 + 1e-12 * 2 * cov0 / hb, "2(B(0)-B(r)) disagrees with the Hankel transform of the screen spectrum: ratio %r at r/L0=%r" % (h / hb, rel))
    for q in ratios:
        ctx.require(0.99 <= q <= 1.01, "Hankel transform of the screen spectrum / structure_function_vk = %r, outside the rounding band" % q)
    ctx.close(ratios[1], ratios[0], 2e-6, "Hankel(D_psd)/D_vk independent of the separation", scale=1.0, name="hankel ratio constancy")
    ctx.residual("hankel ratio minus 0.023/C_PSD*0.172629/0.17253", abs(ratios[0] - 0.023 / vk.C_PSD * 2 * vk.B0_COEF / 0.17253), 2e-6)
    # variance: B(0) vs 2 pi 0.023 (3/5) (L0/r0)^(5/3)
    cov0 = float(np.asarray(quiet(turb.phase_covariance, 0.0, r0, L0)))
    v = 2 * math.pi * 0.023 * 0.6 * (L0 / r0) ** (5.0 / 3)
    ctx.close(cov0 / v, vk.C_PSD / 0.023, 1e-13, "B(0) == integral of the spectrum (up to the rounding of 0.023)", scale=1.0, name="variance vs spectrum")


# ------------------------------------------------------------------ positive semi-definiteness

@st.composite
def psd_cases(draw):
    n = draw(st.integers(2, 40))
    kind = draw(st.sampled_from(["random", "collinear", "grid", "coincident"]))
    seed = draw(st.integers(0, 2**32 - 1))
    return {"n": n, "kind": kind, "seed": seed, "r0": draw(gen.logfloat(0.02, 2.0)), "L0": draw(gen.logfloat(0.5, 1e6)), "span": draw(gen.logfloat(1e-3, 1e2))}


def psd_body(ctx, case):
    turb, _, _ = T()
    rng = gen.np_rng(case["seed"])
    n, L0, r0 = case["n"], case["L0"], case["r0"]
    span = case["span"] * L0 if case["L0"] < 1e3 else case["span"]
    if case["kind"] == "random":
        pts = rng.uniform(-span, span, size=(n, 2))
    elif case["kind"] == "collinear":
        pts = np.outer(rng.uniform(-span, span, size=n), [1.0, 0.5])
    elif case["kind"] == "grid":
        m = int(math.ceil(math.sqrt(n)))
        g = np.stack(np.meshgrid(np.arange(m), np.arange(m)), -1).reshape(-1, 2)[:n]
        pts = g * span / m
    else:
        pts = rng.uniform(-span, span, size=(n, 2))
        pts[1::2] = pts[0::2][:len(pts[1::2])]
    ctx.case(case, nontrivial=n >= 5, classes=[case["kind"], "n_ge_5" if n >= 5 else "n_lt_5"])
    sep = np.sqrt(((pts[:, None, :] - pts[None, :, :]) ** 2).sum(-1))
    C = np.asarray(quiet(turb.phase_covariance, sep, r0, L0), dtype=np.float64)
    ctx.require(C.shape == (n, n) and bool(np.all(np.isfinite(C))), "phase_covariance matrix not finite")
    C = 0.5 * (C + C.T)
    ev = np.linalg.eigvalsh(C)
    B0 = float(vk.B(0.0, r0, L0))
    ctx.residual("min eigenvalue / (n 64 eps64 B0)", max(0.0, -float(ev[0])) / (n * 64 * 2.3e-16 * B0), 1.0)
    ctx.require(ev[0] >= -n * 64 * 2.3e-16 * B0, "phase covariance matrix of %d points not positive semi-definite: min eigenvalue %r (B0=%r)" % (n, float(ev[0]), B0))


def large_cases(tier):
    return [{"n": 2**20 + 37, "r0": 0.15, "L0": 25.0}, {"n": 1500 * 700 + 1, "r0": 0.4, "L0": 1e3}]


def large_body(ctx, case):
    turb, sc, _ = T()
    n, r0, L0 = case["n"], case["r0"], case["L0"]
    ctx.case(case, nontrivial=True)
    r = np.linspace(0.0, 3 * L0, n)
    B0 = float(vk.B(0.0, r0, L0))
    cov = np.asarray(quiet(turb.phase_covariance, r.copy(), r0, L0), dtype=np.float64)
    ctx.require(cov.shape == r.shape, "phase_covariance of a %d-element array: shape %s" % (n, cov.shape))
    ctx.close(cov, vk.B(r, r0, L0), TOLB, "phase_covariance on an array of more than 2^20 separations", scale=B0, name="large array B")
    d = np.asarray(quiet(sc.structure_function_vk, r.copy(), r0, L0), dtype=np.float64)
    KR = 0.17253 / (2 * vk.B0_COEF)
    ctx.close(d, KR * vk.D(r, r0, L0), 1e-7, "structure_function_vk on an array of more than 2^20 separations", scale=2 * B0, name="large array D")
    m = np.resize(r, 1100 * 1000 + 1100 * 7).reshape(1100, 1007)
    c2 = np.asarray(quiet(turb.phase_covariance, m.copy(), r0, L0), dtype=np.float64)
    ctx.close(c2, vk.B(m, r0, L0), TOLB, "phase_covariance on a 1100 x 1007 matrix of separations", scale=B0, name="large matrix B")


def self_test():
    vk.self_test()


LAWS = [
    plain_law("large_arrays", large_cases, large_body, shards={"quick": 2, "thorough": 2}),
    given_law("closed_forms", sep_cases(), sep_body, {"quick": 1500, "thorough": 20000}, shards={"quick": 3, "thorough": 16}),
    given_law("hankel", hankel_cases(), hankel_body, {"quick": 60, "thorough": 750}, shards={"quick": 3, "thorough": 16}),
    given_law("psd_matrix", psd_cases(), psd_body, {"quick": 300, "thorough": 5000}, shards={"quick": 3, "thorough": 16}),
]
