"""C17 - atmospheric and photometric conversions are mutually inverse and scale right."""
import math

import numpy as np
from hypothesis import strategies as st

from ..core import EPS32, given_law, plain_law
from .. import gen

RULE = ("positive log-uniform r0 (1e-3..10 m), Cn2 (1e-18..1e-9), seeing (0.01..30 arcsec), wavelength (0.3..25 um, or the "
        "default), magnitudes -5..30, all twelve bands; scalars and arrays; profiles of rank 1-3 with every valid axis; "
        "slope arrays (2, nSubaps, nFrames) constructed with an exactly prescribed variance. Oracles: round trips, "
        "composition equality (bit-equal), scaling exponents, closed-form single-layer reductions, loop-over-profiles. "
        "Non-trivial = non-default wavelength/band, or array input, or rank>=2 with axis != -1. Distinct = distinct "
        "canonical JSON of the case."
        " Also: numpy.ma profiles with flag values under the mask vs the valid layers; the same pupil array edited in place between two photometry calls."
        " Law huge_record: records of 35 M (float32) and 42 M (float64) samples.")
ASSUMPTIONS = ["round trips to 1e-12 relative (two pow() calls)", "0.314 constants: ratio within 1% and independent of the drawn cn2, h, v, lambda to 1e-12",
               "flux_to_magnitude accepts scalars only (it calls float())"]

RT = 1e-12
BANDS = ['U', 'B', 'V', 'R', 'I', 'J', 'H', 'K', 'g', 'r', 'i', 'z']


def A():
    from aotools.turbulence import atmos_conversions as ac
    from aotools.astronomy import _astronomy as astro
    import aotools
    return ac, astro, aotools


@st.composite
def conv_cases(draw):
    arr = draw(st.booleans())
    n = draw(st.integers(1, 5)) if arr else 0
    def val(lo, hi):
        if arr:
            return np.array([draw(gen.logfloat(lo, hi)) for _ in range(n)])
        return draw(gen.logfloat(lo, hi))
    return {"r0": val(1e-3, 10), "cn2": val(1e-18, 1e-9), "seeing": val(0.01, 30),
            "lam": draw(st.one_of(st.none(), gen.logfloat(0.3e-6, 25e-6))), "k": draw(gen.logfloat(0.1, 10)),
            "wl": draw(gen.logfloat(0.3e-6, 25e-6)), "d": draw(gen.logfloat(0.01, 2))}


def conv_body(ctx, case):
    ac, astro, aotools = A()
    r0, cn2, seeing, lam, k = case["r0"], case["cn2"], case["seeing"], case["lam"], case["k"]
    kw = {} if lam is None else {"lamda": lam}
    L = 500e-9 if lam is None else lam
    ctx.case(case, nontrivial=(lam is not None) or isinstance(r0, np.ndarray), classes=["array" if isinstance(r0, np.ndarray) else "scalar", "default_lambda" if lam is None else "lambda"])
    # inverse pairs, both directions
    pairs = [("cn2_to_r0", "r0_to_cn2", cn2, r0), ("r0_to_seeing", "seeing_to_r0", r0, seeing), ("cn2_to_seeing", "seeing_to_cn2", cn2, seeing)]
    for f, g, x, y in pairs:
        F, G = getattr(ac, f), getattr(ac, g)
        ctx.close(G(F(x, **kw), **kw), x, RT, "%s(%s(x)) == x" % (g, f), scale=float(np.max(np.abs(x))) if isinstance(x, np.ndarray) else abs(x)) if not isinstance(x, np.ndarray) else \
            ctx.close(G(F(x, **kw), **kw) / x, np.ones_like(x), RT, "%s(%s(x)) == x" % (g, f))
        if isinstance(y, np.ndarray):
            ctx.close(F(G(y, **kw), **kw) / y, np.ones_like(y), RT, "%s(%s(y)) == y" % (f, g))
        else:
            ctx.close(F(G(y, **kw), **kw), y, RT, "%s(%s(y)) == y" % (f, g), scale=abs(y))
        # package-level names are the same functions
        ctx.equal(getattr(aotools, f)(x, **kw), F(x, **kw), "aotools.%s vs module" % f)
    # composites = composition (bit-equal)
    ctx.equal(ac.cn2_to_seeing(cn2, **kw), ac.r0_to_seeing(ac.cn2_to_r0(cn2, **kw), **kw), "cn2_to_seeing == r0_to_seeing o cn2_to_r0")
    ctx.equal(ac.seeing_to_cn2(seeing, **kw), ac.r0_to_cn2(ac.seeing_to_r0(seeing, **kw), **kw), "seeing_to_cn2 == r0_to_cn2 o seeing_to_r0")
    # scaling laws
    one = np.ones_like(np.asarray(cn2, dtype=float))
    ctx.close(ac.cn2_to_r0(cn2, L * k) / ac.cn2_to_r0(cn2, L), one * k ** 1.2, RT, "r0 ~ lambda^(6/5)", scale=k ** 1.2)
    ctx.close(ac.cn2_to_r0(cn2 * k, L) / ac.cn2_to_r0(cn2, L), one * k ** -0.6, RT, "r0 ~ Cn2^(-3/5)", scale=k ** -0.6)
    ctx.close(ac.cn2_to_seeing(cn2, L * k) / ac.cn2_to_seeing(cn2, L), one * k ** -0.2, RT, "seeing ~ lambda^(-1/5)", scale=k ** -0.2)
    ctx.close(ac.r0_to_seeing(r0 * k, L) / ac.r0_to_seeing(r0, L), np.ones_like(np.asarray(r0, dtype=float)) / k, RT, "seeing ~ 1/r0", scale=1 / k)
    # seeing is 0.98 lambda / r0 in arcsec
    ctx.close(ac.r0_to_seeing(r0, L), 0.98 * L / np.asarray(r0, dtype=float) * 206264.80624709636, 1e-12, "r0_to_seeing == 0.98 lambda/r0 [arcsec]")
    # slope variance <-> r0
    wl, d = case["wl"], case["d"]
    sv = ac.slope_variance_from_r0(r0, wl, d)
    ctx.close(sv * np.asarray(r0, dtype=float) ** (5. / 3) * d ** (1. / 3) / wl ** 2, 0.162 * np.ones_like(np.asarray(r0, dtype=float)), RT, "slope variance == 0.162 lambda^2 r0^-5/3 d^-1/3")
    ctx.close(ac.slope_variance_from_r0(np.asarray(r0) * k, wl, d) / sv, np.ones_like(np.asarray(r0, dtype=float)) * k ** (-5. / 3), RT, "slope variance ~ r0^(-5/3)", scale=k ** (-5. / 3))


@st.composite
def slope_cases(draw):
    ns, nf = draw(st.integers(1, 6)), draw(st.integers(2, 40))
    return {"z": draw(gen.float_array((2, ns, nf), kind="dense")), "r0": draw(gen.logfloat(1e-2, 5)), "wl": draw(gen.logfloat(0.3e-6, 25e-6)),
            "d": draw(gen.logfloat(0.01, 2)), "single": draw(st.sampled_from([False, False, True])),
            # static tilt of the sensor in units of the slope standard deviation: reference offsets far above the
            # turbulence signal are ordinary in open-loop data
            "offset": draw(st.one_of(st.floats(-1, 1), gen.signed_logfloat(1, 1e6)))}


def slope_body(ctx, case):
    ac, _, _ = A()
    z, r0, wl, d = case["z"], case["r0"], case["wl"], case["d"]
    var = ac.slope_variance_from_r0(r0, wl, d)
    zc = z - z.mean(axis=-1, keepdims=True)
    sd = np.sqrt((zc ** 2).mean(axis=-1, keepdims=True))
    if np.any(sd < 1e-6):
        ctx.reject("degenerate_draw")
        return
    single = bool(case.get("single"))
    off = case["offset"] if not single else max(-1e3, min(1e3, case["offset"]))
    slopes = zc / sd * math.sqrt(var) + off * math.sqrt(var)
    if single:
        slopes = slopes.astype(np.float32)
    ctx.case(case, nontrivial=True, classes=["nsub%d" % z.shape[1], "float32" if single else "float64",
                                             "offset<=1sigma" if abs(off) <= 1 else "offset_1e%d_sigma" % int(math.floor(math.log10(abs(off))))])
    s0 = slopes.copy()
    got = ac.r0_from_slopes(slopes, wl, d)
    ctx.equal(slopes, s0, "r0_from_slopes modified its input")
    # the variance the array really has (rounding of the construction included), in extended precision, two passes
    xl = slopes.astype(np.longdouble)
    dev = xl - xl.mean(axis=-1, keepdims=True)
    v_true = (dev * dev).mean(axis=-1)
    want = float(np.mean((0.162 * wl ** 2 * d ** (-1. / 3) / v_true) ** np.longdouble(0.6)))
    eps = EPS32 if single else 2.3e-16
    # a two-pass variance loses nothing to the offset beyond the square of the rounding error of the mean
    tol = 64 * eps * math.log2(z.shape[-1] + 2) + 4 * (eps * abs(off)) ** 2
    ctx.close(got, want, tol, "r0_from_slopes(slopes) == r0 of the variance the slopes have (offset %.3g sigma, %s)" % (off, slopes.dtype), scale=want, name="r0_from_slopes vs exact variance (%s)" % slopes.dtype)
    if not single and abs(off) <= 1:
        ctx.close(got, r0, 1e-8, "r0_from_slopes(slopes with variance slope_variance_from_r0(r0)) == r0", scale=r0)


@st.composite
def profile_cases(draw):
    rank = draw(st.integers(1, 3))
    shape = tuple(draw(st.integers(1, 5)) for _ in range(rank))
    axis = draw(st.integers(-rank, rank - 1))
    seed = draw(st.integers(0, 2**32 - 1))
    rng = gen.np_rng(seed)
    cn2 = np.exp(rng.uniform(math.log(1e-17), math.log(1e-12), size=shape))
    h = np.exp(rng.uniform(math.log(10), math.log(2e4), size=shape))
    v = np.exp(rng.uniform(math.log(0.5), math.log(60), size=shape))
    if draw(st.integers(0, 3)) == 0:
        # whole-metre altitude tables / whole m/s winds stored as integers are valid inputs
        h = np.round(h).astype(draw(st.sampled_from(["int64", "int32"])))
        v = np.maximum(np.round(v), 1).astype(h.dtype)
    return {"cn2": cn2, "h": h, "v": v, "axis": axis, "use_default_axis": draw(st.booleans()) if axis in (-1, rank - 1) else False,
            "lam": draw(st.one_of(st.none(), gen.logfloat(0.3e-6, 25e-6))), "masked_seed": draw(st.one_of(st.none(), st.none(), st.integers(0, 2**31)))}


@st.composite
def bcast_cases(draw):
    N = draw(st.integers(1, 6))
    T = draw(st.integers(1, 6))
    seed = draw(st.integers(0, 2**32 - 1))
    rng = gen.np_rng(seed)
    return {"cn2": np.exp(rng.uniform(math.log(1e-17), math.log(1e-12), size=N)), "stack": np.exp(rng.uniform(math.log(5), math.log(2e4), size=(T, N))),
            "which": draw(st.sampled_from(["coherenceTime", "isoplanaticAngle", "rytov_variance"])), "explicit_axis": draw(st.sampled_from([None, -1, 1])),
            "lam": draw(st.one_of(st.none(), gen.logfloat(0.3e-6, 25e-6)))}


def bcast_body(ctx, case):
    """A single Cn2 profile against a stack of wind (or altitude) profiles broadcasts: one result per stacked profile."""
    ac, _, _ = A()
    cn2, stack, f = case["cn2"], case["stack"], getattr(A()[0], case["which"])
    kw = {} if case["lam"] is None else {"lamda": case["lam"]}
    kwa = dict(kw) if case["explicit_axis"] is None else dict(kw, axis=case["explicit_axis"])
    ctx.case(case, nontrivial=stack.shape[0] != stack.shape[1], classes=[case["which"], "T_eq_N" if stack.shape[0] == stack.shape[1] else "T_ne_N"])
    got = np.asarray(f(cn2, stack, **kwa))
    per = np.array([f(cn2, stack[i], **kw) for i in range(stack.shape[0])])
    ctx.require(got.shape == per.shape, "%s(cn2 (N,), stack (T,N)): shape %s, expected %s" % (case["which"], got.shape, per.shape))
    ctx.close(got, per, 1e-12, "%s with one Cn2 profile and a stack of profiles == loop over the stack" % case["which"], name="broadcast " + case["which"])


@st.composite
def shared_cases(draw):
    rank = draw(st.integers(2, 3))
    shape = tuple(draw(st.integers(1, 6)) for _ in range(rank))
    axis = draw(st.integers(-rank, rank - 1))
    rng = gen.np_rng(draw(st.integers(0, 2**32 - 1)))
    return {"cn2": np.exp(rng.uniform(math.log(1e-17), math.log(1e-12), size=shape)), "vec": np.exp(rng.uniform(math.log(5), math.log(2e4), size=shape[axis])),
            "axis": axis, "which": draw(st.sampled_from(["coherenceTime", "isoplanaticAngle", "rytov_variance"])), "lam": draw(st.one_of(st.none(), gen.logfloat(0.3e-6, 25e-6))),
            "stack_is": draw(st.sampled_from(["cn2", "cn2", "second"]))}


def shared_body(ctx, case):
    """A table of profiles (time x layer, or layer x time, ...) with ONE altitude / wind vector for all of them - the form in
    which SCIDAR / MASS / reference profiles come.  axis names the layer axis of the table; the vector lies along it."""
    ac, _, _ = A()
    f = getattr(ac, case["which"])
    tab, vec, axis = case["cn2"], case["vec"], case["axis"]
    kw = {} if case["lam"] is None else {"lamda": case["lam"]}
    last = axis % tab.ndim == tab.ndim - 1
    ctx.case(case, nontrivial=not last, classes=[case["which"], "layer_axis_last" if last else "layer_axis_not_last", "rank%d" % tab.ndim,
                                                 "coincident_lengths" if (not last and tab.shape[-1] == tab.shape[axis]) else "distinct_lengths", "table_is_" + case["stack_is"]])
    flat = np.moveaxis(tab, axis, -1).reshape(-1, tab.shape[axis])
    if case["stack_is"] == "cn2":
        got = np.asarray(f(tab.copy(), vec.copy(), axis=axis, **kw))
        per = np.array([f(flat[i].copy(), vec.copy(), **kw) for i in range(flat.shape[0])])
    else:
        # one Cn2 profile, a table of wind / altitude profiles
        got = np.asarray(f(vec.copy() * 1e-17, tab.copy() * 1e13, axis=axis, **kw))
        per = np.array([f(vec.copy() * 1e-17, flat[i].copy() * 1e13, **kw) for i in range(flat.shape[0])])
    want_shape = tuple(s_ for i, s_ in enumerate(tab.shape) if i != axis % tab.ndim)
    ctx.require(got.shape == want_shape, "%s(table %s, vector (%d,), axis=%d): shape %s, expected %s" % (case["which"], tab.shape, len(vec), axis, got.shape, want_shape))
    ctx.close(got.reshape(-1), per, 1e-12, "%s(table of profiles, one shared vector, axis=%d) == loop over the profiles" % (case["which"], axis), name="shared vector " + case["which"])


def profile_body(ctx, case):
    ac, _, _ = A()
    cn2, h, v, axis, lam = case["cn2"], case["h"], case["v"], case["axis"], case["lam"]
    kw = {} if lam is None else {"lamda": lam}
    kwa = dict(kw) if case["use_default_axis"] else dict(kw, axis=axis)
    ctx.case(case, nontrivial=cn2.ndim >= 2 and axis % cn2.ndim != cn2.ndim - 1, classes=["rank%d" % cn2.ndim, "axis_last" if axis % cn2.ndim == cn2.ndim - 1 else "axis_other"])
    c0, h0, v0 = cn2.copy(), h.copy(), v.copy()
    ctx.classes["profile_dtype_" + str(h.dtype)] += 1
    for name, second in (("coherenceTime", v), ("isoplanaticAngle", h), ("rytov_variance", h)):
        f = getattr(ac, name)
        got = np.asarray(f(cn2, second, **kwa))
        # the same numbers stored as floats must give the same result (no integer arithmetic surprises)
        ctx.close(got, np.asarray(f(cn2, second.astype(np.float64), **kwa)), 1e-12, "%s: integer-typed and float-typed profile give the same result" % name, name=name + " dtype independence")
        # loop over profiles
        cm = np.moveaxis(cn2, axis, -1).reshape(-1, cn2.shape[axis])
        sm = np.moveaxis(second, axis, -1).reshape(-1, cn2.shape[axis])
        per = np.array([f(cm[i], sm[i], **kw) for i in range(cm.shape[0])])
        want_shape = tuple(s for i, s in enumerate(cn2.shape) if i != axis % cn2.ndim)
        ctx.require(got.shape == want_shape, "%s: shape %s, expected %s" % (name, got.shape, want_shape))
        ctx.close(got.reshape(-1), per, 1e-12, "%s(axis=%d) == loop over profiles" % (name, axis))
    ctx.equal(cn2, c0, "profile integral modified cn2")
    ctx.equal(h, h0, "profile integral modified h")
    ctx.equal(v, v0, "profile integral modified v")
    if case.get("masked_seed") is not None and cn2.shape[axis] >= 2:
        # measured profiles with missing layers, in NumPy's container for that (numpy.ma): a masked layer is no layer,
        # whatever flag value sits under the mask
        rng = gen.np_rng(case["masked_seed"])
        cmv = np.moveaxis(cn2, axis, -1)
        bad = rng.random(cmv.shape) < 0.4
        bad[..., 0] = False                                  # at least one valid layer per profile
        bad = np.moveaxis(bad, -1, axis)
        flag = np.where(bad, -999.0, cn2)
        ctx.classes["masked_profiles"] += 1
        for name, second in (("coherenceTime", v), ("isoplanaticAngle", h), ("rytov_variance", h)):
            f = getattr(ac, name)
            got = np.ma.filled(np.ma.asarray(f(np.ma.array(flag, mask=bad), np.ma.array(second, mask=bad), **kwa)), np.nan)
            cm = np.moveaxis(cn2, axis, -1).reshape(-1, cn2.shape[axis])
            sm = np.moveaxis(second, axis, -1).reshape(-1, cn2.shape[axis])
            bm = np.moveaxis(bad, axis, -1).reshape(-1, cn2.shape[axis])
            per = np.array([f(cm[i][~bm[i]], sm[i][~bm[i]], **kw) for i in range(cm.shape[0])])
            ctx.close(np.asarray(got, dtype=float).reshape(-1), per, 1e-12, "%s of masked profiles (numpy.ma) == %s of the valid layers of each profile" % (name, name), name=name + " masked profiles")


@st.composite
def layer_cases(draw):
    return {"cn2": draw(gen.logfloat(1e-17, 1e-11)), "h": draw(gen.logfloat(10, 3e4)), "v": draw(gen.logfloat(0.5, 80)),
            "lam": draw(gen.logfloat(0.3e-6, 25e-6)), "cn2b": draw(gen.logfloat(1e-17, 1e-11)), "hb": draw(gen.logfloat(10, 3e4)),
            "vb": draw(gen.logfloat(0.5, 80)), "lamb": draw(gen.logfloat(0.3e-6, 25e-6)), "int_profile": draw(st.sampled_from([None, None, "int64", "int32"]))}


def layer_body(ctx, case):
    ac, _, _ = A()
    ctx.case(case, nontrivial=True)
    ratios_t, ratios_h = [], []
    for c, h, v, lam in ((case["cn2"], case["h"], case["v"], case["lam"]), (case["cn2b"], case["hb"], case["vb"], case["lamb"])):
        r0 = ac.cn2_to_r0(c, lam)
        if case.get("int_profile"):
            h, v = int(round(h)) or 1, int(round(v)) or 1
            harr, varr = np.array([h], dtype=case["int_profile"]), np.array([v], dtype=case["int_profile"])
        else:
            harr, varr = np.array([h]), np.array([v])
        th = ac.isoplanaticAngle(np.array([c]), harr, lam) * math.pi / (180 * 3600.)
        tau = ac.coherenceTime(np.array([c]), varr, lam)
        ratios_h.append(float(th * h / r0))
        ratios_t.append(float(tau * v / r0))
    for name, rr in (("isoplanatic angle * h / r0", ratios_h), ("coherence time * v / r0", ratios_t)):
        ctx.require(abs(rr[0] / 0.314 - 1) <= 0.01, "%s = %r, expected 0.314 within 1%%" % (name, rr[0]))
        ctx.close(rr[1], rr[0], 1e-11, "%s independent of cn2, h, v, lambda" % name, scale=rr[0])


@st.composite
def photo_cases(draw):
    n = draw(st.integers(2, 12))
    return {"mag": draw(st.floats(-5, 30)), "band": draw(st.sampled_from(BANDS)), "default_band": draw(st.booleans()),
            "mask": draw(gen.mask01(n, min_active=1)), "pxl": draw(gen.logfloat(1e-3, 2)), "t": draw(gen.logfloat(1e-4, 100)),
            "k": draw(st.integers(2, 5)), "wb": draw(gen.logfloat(1, 500)), "flux": draw(gen.logfloat(1e-3, 1e14)),
            "mags": np.array(draw(st.lists(st.floats(-5, 30), min_size=1, max_size=4))),
            "imag": draw(st.integers(-5, 30)), "itype": draw(st.sampled_from(["int", "int8", "int16", "int32", "int64", "uint8", "uint16", "uint32", "uint64"]))}


def photo_body(ctx, case):
    _, astro, aotools = A()
    mag, band, mask, pxl, t, k = case["mag"], case["band"], case["mask"], case["pxl"], case["t"], case["k"]
    kw = {} if case["default_band"] else {"waveband": band}
    ctx.case(case, nontrivial=not case["default_band"] and band != "V", classes=["band_" + ("default" if case["default_band"] else band)])
    f = astro.magnitude_to_flux(mag, **kw)
    ctx.require(f > 0 and math.isfinite(f), "flux not positive/finite")
    ctx.close(astro.flux_to_magnitude(f, **kw), mag, 1e-11, "flux_to_magnitude(magnitude_to_flux(m)) == m", scale=1.0 + abs(mag))
    fl = case["flux"]
    ctx.close(astro.magnitude_to_flux(astro.flux_to_magnitude(fl, **kw), **kw), fl, 1e-11, "magnitude_to_flux(flux_to_magnitude(f)) == f", scale=fl)
    ctx.close(astro.magnitude_to_flux(mag, **kw) / astro.magnitude_to_flux(mag + 5, **kw), 100.0, 1e-11, "five magnitudes = factor 100", scale=100.0)
    # arrays element-wise
    ma = case["mags"]
    ctx.close(astro.magnitude_to_flux(ma, **kw), np.array([astro.magnitude_to_flux(float(m), **kw) for m in ma]), 1e-14, "magnitude_to_flux array == per element")
    # whole-number magnitudes carried by an integer type (catalogue magnitudes stored as integers, signed or unsigned;
    # scalar and array): the same flux and photon count as the same magnitude given as a float
    if "imag" in case:
        im, it = case["imag"], case["itype"]
        if it.startswith("uint"):
            im = abs(im)
        ctx.classes["magnitude_carrier_" + it] += 1
        carrier = int(im) if it == "int" else getattr(np, it)(im)
        fref = astro.magnitude_to_flux(float(im), **kw)
        ctx.close(astro.magnitude_to_flux(carrier, **kw), fref, 1e-12, "magnitude_to_flux(%s(%d)) == magnitude_to_flux(%d.0)" % (it, im, im), scale=fref, name="integer-typed magnitude (scalar)")
        ctx.close(astro.photons_per_band(carrier, mask, pxl, t, **kw), astro.photons_per_band(float(im), mask, pxl, t, **kw), 1e-12, "photons_per_band(%s(%d)) == photons_per_band(%d.0)" % (it, im, im), scale=fref * t * float(mask.sum()) * pxl ** 2, name="integer-typed magnitude (photons_per_band)")
        ctx.close(astro.photons_per_mag(carrier, mask, pxl, case["wb"], t), astro.photons_per_mag(float(im), mask, pxl, case["wb"], t), 1e-12, "photons_per_mag(%s(%d)) == photons_per_mag(%d.0)" % (it, im, im), scale=astro.photons_per_mag(float(im), mask, pxl, case["wb"], t), name="integer-typed magnitude (photons_per_mag)")
        if it != "int":
            arr = np.array([im, im + 1, 0], dtype=it)
            ctx.close(astro.magnitude_to_flux(arr, **kw), np.array([astro.magnitude_to_flux(float(m), **kw) for m in arr]), 1e-12, "magnitude_to_flux(%s array) == per element as floats" % it, name="integer-typed magnitude (array)")
    # default band is V
    if case["default_band"]:
        ctx.equal(f, astro.magnitude_to_flux(mag, "V"), "default waveband is V")
    # photon counts
    m0 = mask.copy()
    p = astro.photons_per_band(mag, mask, pxl, t, **kw)
    area = float(mask.sum()) * pxl ** 2
    ctx.close(p, f * t * area, 1e-12, "photons_per_band == flux * t * area", scale=f * t * area)
    ctx.close(astro.photons_per_band(mag, mask, pxl, k * t, **kw), k * p, 1e-12, "photons proportional to exposure time", scale=k * p)
    big = np.kron(mask, np.ones((k, 1), dtype=mask.dtype))
    ctx.close(astro.photons_per_band(mag, big, pxl, t, **kw), k * p, 1e-12, "photons proportional to collecting area", scale=k * p)
    q = astro.photons_per_mag(mag, mask, pxl, case["wb"], t)
    ctx.close(astro.photons_per_mag(mag, mask, pxl, case["wb"], k * t), k * q, 1e-12, "photons_per_mag proportional to time", scale=k * q)
    ctx.close(astro.photons_per_mag(mag, big, pxl, case["wb"], t), k * q, 1e-12, "photons_per_mag proportional to area", scale=k * q)
    ctx.close(astro.photons_per_mag(mag, mask, pxl, case["wb"], t) / astro.photons_per_mag(mag + 5, mask, pxl, case["wb"], t), 100.0, 1e-11, "photons_per_mag: five magnitudes = factor 100", scale=100.0)
    ctx.equal(mask, m0, "photon functions modified the mask")
    # the same pupil array edited in place between two calls (a spider or central obscuration drawn into it): the second
    # call sees the pupil as it is now
    m2 = mask.copy()
    astro.photons_per_band(mag, m2, pxl, t, **kw), astro.photons_per_mag(mag, m2, pxl, case["wb"], t)
    if m2.flat[0]:
        m2[m2 != 0] = 0
        m2.flat[-1] = 1
    else:
        m2.flat[0] = 1
    if float(m2.sum()) != float(mask.sum()):
        ctx.close(astro.photons_per_band(mag, m2, pxl, t, **kw), f * t * float(m2.sum()) * pxl ** 2, 1e-12, "photons_per_band after the same mask array was edited in place == flux * t * area of the edited mask", scale=f * t * area)
        ctx.close(astro.photons_per_mag(mag, m2, pxl, case["wb"], t) * float(mask.sum()), q * float(m2.sum()), 1e-12, "photons_per_mag after the same mask array was edited in place is proportional to the edited area", scale=q * float(mask.sum()))
    ctx.equal(aotools.magnitude_to_flux(mag, **kw), f, "aotools.magnitude_to_flux vs module")


def band_cases(tier):
    return [{"band": b, "mag": m} for b in BANDS for m in (-5.0, 0.0, 2.5, 12.25, 30.0)]


def band_body(ctx, case):
    _, astro, _ = A()
    b, m = case["band"], case["mag"]
    ctx.case(case, nontrivial=True)
    f = astro.magnitude_to_flux(m, b)
    ctx.close(astro.flux_to_magnitude(f, b), m, 1e-11, "band %s round trip" % b, scale=1 + abs(m))
    ctx.close(f / astro.magnitude_to_flux(m + 5, b), 100.0, 1e-11, "band %s five magnitudes" % b, scale=100.0)
    # flux of a zero-magnitude star: table zero point [Jy] * 1.51e7 * fractional bandwidth dLambda/lambda column
    zp = astro.FLUX_DICTIONARY[b]
    ctx.close(astro.magnitude_to_flux(0.0, b), zp[2] * 1.51e7 * zp[1], 1e-14, "band %s zero point" % b)


def huge_cases(tier):
    return [{"shape": (2, 1100, 16000), "dtype": "float32"}, {"shape": (2, 70000, 300), "dtype": "float64"}]


def huge_body(ctx, case):
    """A long telemetry record (more than 2^25 samples): still the r0 whose slope variance is the variance of the record,
    every sub-aperture counted."""
    ac, _, _ = A()
    shape, dt = tuple(case["shape"]), case["dtype"]
    ctx.case(case, nontrivial=True, classes=[dt, "samples_%d" % int(np.prod(shape))])
    rng = gen.np_rng(shape[1])
    wl, d = 500e-9, 0.4
    # per sub-aperture r0 values, hence per sub-aperture slope variances; independent oracle: the mean of the r0 values that the
    # (two-pass, double precision) variance of each row gives
    r0_rows = np.linspace(0.08, 0.25, shape[1])
    sig = np.sqrt(np.asarray(ac.slope_variance_from_r0(r0_rows, wl, d), dtype=np.float64))
    slopes = np.empty(shape, dtype=dt)
    for k in range(shape[0]):
        slopes[k] = (rng.standard_normal(size=shape[1:], dtype=np.float32 if dt == "float32" else np.float64) * sig[:, None]).astype(dt)
    v = np.empty(shape[:2])
    for k in range(shape[0]):
        blk = slopes[k].astype(np.float64)
        v[k] = ((blk - blk.mean(axis=-1, keepdims=True)) ** 2).mean(axis=-1)
    want = float((((0.162 * wl ** 2 * d ** (-1.0 / 3)) / v) ** 0.6).mean())
    got = float(ac.r0_from_slopes(slopes, wl, d))
    ctx.close(got, want, 1e-4 if dt == "float32" else 1e-10, "r0_from_slopes of a record of %d samples == mean over sub-apertures of the r0 of each row's variance" % int(np.prod(shape)), scale=want, name="huge record")


LAWS = [
    plain_law("huge_record", huge_cases, huge_body, shards={"quick": 2, "thorough": 2}),
    given_law("conversions", conv_cases(), conv_body, {"quick": 1500, "thorough": 20000}, shards={"quick": 3, "thorough": 16}),
    given_law("slopes", slope_cases(), slope_body, {"quick": 500, "thorough": 7500}, shards={"quick": 3, "thorough": 16}),
    given_law("profiles", profile_cases(), profile_body, {"quick": 800, "thorough": 12500}, shards={"quick": 3, "thorough": 16}),
    given_law("profiles_shared_vector", shared_cases(), shared_body, {"quick": 400, "thorough": 2500}, shards={"quick": 2, "thorough": 16}),
    given_law("profiles_broadcast", bcast_cases(), bcast_body, {"quick": 400, "thorough": 2500}, shards={"quick": 2, "thorough": 16}),
    given_law("single_layer", layer_cases(), layer_body, {"quick": 800, "thorough": 12500}, shards={"quick": 3, "thorough": 16}),
    given_law("photometry", photo_cases(), photo_body, {"quick": 1000, "thorough": 15000}, shards={"quick": 3, "thorough": 16}),
    plain_law("bands_exhaustive", band_cases, band_body),
]
