"""C18 - profile compression conserves the turbulence it compresses."""
import math
import warnings

import numpy as np
from hypothesis import strategies as st

from ..core import plain_law, Failure, Law, Violation, given_law
from .. import gen

RULE = ("profiles: N in 2..60 layers; heights on regular linspace/arange grids over many ranges (slab-edge rounding is "
        "range dependent), irregular sorted distinct heights, clustered heights (empty slabs); strengths positive "
        "log-uniform over 3 decades (optionally exact zeros for equivalent layers); winds; 1 <= L < N; R in 0..3; NumPy "
        "global seed drawn per case. Enumeration: equivalent_layers over every (N<=40 quick / 80 thorough, 1<=L<N, 12 "
        "height ranges) on regular grids. Oracles: exactly L layers, non-negative, inputs unchanged, conserved sums and "
        "5/3 moments, own half-open equal-thickness slab membership, optimal grouping validity (contiguous grouping "
        "recovered from cumulative strengths, representative heights, cost <= equal split), GCTM improvement + calibrated "
        "moment tolerance. Non-trivial = irregular heights or L >= 3. Distinct = canonical JSON."
        " Also: L up to N (as many layers as the input); GCTM in km / fraction / 1e-13 units with matching scaling keywords; equivalent_layers a second time under errstate(all='raise') with warnings as errors.")
ASSUMPTIONS = ["slab i = [hmin + i*step, hmin + (i+1)*step), last slab closed at hmax; a layer within 1e-9*range of an interior edge is not judged for membership (either side accepted)",
               "equal split for optimal grouping = groups of N/L layers (any grouping with sizes floor/ceil(N/L) when L does not divide N: the result must not be worse than all of them)",
               "GCTM: optimiser-accuracy check (objective not worse than at its starting guess; first 2L-1 scaled moments within 5e-2 relative), labelled as such"]


def PC():
    from aotools.turbulence import profile_compression as pc
    return pc


RANGES = [(0.0, 25000.0), (0.0, 20000.0), (0.0, 1.0), (0.0, 0.7), (100.0, 18000.0), (0.1, 0.3), (3.0, 17.0), (0.0, 15999.0), (50.0, 24950.0), (0.0, 1e-3), (1234.5, 23456.7), (0.0, 12.0)]


def moments_53(h, p):
    return float(np.sum(p * h ** (5.0 / 3)))


def check_equivalent(ctx, h, p, L, w=None, where=""):
    pc = PC()
    h0, p0 = h.copy(), p.copy()
    w0 = None if w is None else w.copy()
    with warnings.catch_warnings():
        warnings.simplefilter("ignore")
        with np.errstate(all="ignore"):
            out = pc.equivalent_layers(h, p, L) if w is None else pc.equivalent_layers(h, p, L, w=w)
    ctx.equal(h, h0, "equivalent_layers modified h")
    ctx.equal(p, p0, "equivalent_layers modified p")
    if w is not None:
        ctx.equal(w, w0, "equivalent_layers modified w")
    # "returns exactly L layers" whatever the caller's floating-point error state and warning filters are (programs that
    # run with numpy.seterr(all='raise') or -W error are still callers): no 0/0 on the way, even for an empty slab
    try:
        with warnings.catch_warnings():
            warnings.simplefilter("error")
            with np.errstate(all="raise"):
                strict = pc.equivalent_layers(h, p, L) if w is None else pc.equivalent_layers(h, p, L, w=w)
    except (FloatingPointError, RuntimeWarning) as e:
        ctx.require(False, "equivalent_layers%s (N=%d, L=%d) does not return under numpy.seterr(all='raise') / warnings as errors: %s: %s" % (where, len(h), L, type(e).__name__, str(e)[:100]))
    for a_, b_ in zip(strict, out):
        ctx.equal(np.asarray(a_), np.asarray(b_), "equivalent_layers%s returns something else under numpy.seterr(all='raise')" % where, nan_ok=True)
    ctx.require(len(out) == (2 if w is None else 3), "equivalent_layers returned %d arrays" % len(out))
    hl, cl = np.asarray(out[0]), np.asarray(out[1])
    ctx.require(hl.shape == (L,) and cl.shape == (L,), "equivalent_layers%s: %d layers returned, expected exactly L=%d" % (where, len(cl), L))
    ctx.require(bool(np.all(cl >= 0)), "equivalent_layers: negative strength")
    tot = float(p.sum())
    ctx.close(float(cl.sum()), tot, 1e-12, "equivalent_layers%s conserves total Cn2 (N=%d, L=%d)" % (where, len(h), L), scale=tot or 1.0, name="EL total cn2")
    ctx.require(bool(np.all(np.isfinite(hl))), "equivalent_layers%s: non-finite layer height %r (N=%d, L=%d)" % (where, hl.tolist(), len(h), L))
    m = moments_53(h.astype(np.float64), p)
    ctx.close(moments_53(hl, cl), m, 1e-11, "equivalent_layers%s conserves the 5/3 height moment" % where, scale=m or 1.0, name="EL height moment")
    if w is not None:
        wl = np.asarray(out[2])
        ctx.require(wl.shape == (L,) and bool(np.all(np.isfinite(wl))), "equivalent_layers: wind output shape/finite")
        mw = moments_53(w.astype(np.float64), p)
        ctx.close(moments_53(wl.astype(np.float64), cl), mw, 1e-11 if w.dtype != np.float32 else 2e-6, "equivalent_layers conserves the 5/3 wind moment", scale=mw or 1.0, name="EL wind moment (%s)" % ("single" if w.dtype == np.float32 else "double"))
    # slab membership: own half-open equal-thickness slabs
    lo, hi = float(h.min()), float(h.max())
    step = (hi - lo) / L
    pos = (h.astype(np.float64) - lo) / step if step > 0 else np.zeros(len(h))
    idx = np.minimum(np.floor(pos).astype(int), L - 1)
    amb = np.abs(pos - np.round(pos)) < 1e-9 * L
    amb &= (np.round(pos) > 0) & (np.round(pos) < L)
    want = np.zeros(L)
    np.add.at(want, idx[~amb], p[~amb])
    slack = np.zeros(L)
    for k in np.nonzero(amb)[0]:
        e = int(round(pos[k]))
        slack[e - 1] += p[k]
        slack[e] += p[k]
    bad = (cl < want - 1e-12 * tot) | (cl > want + slack + 1e-12 * tot)
    ctx.require(not bad.any(), "equivalent_layers%s: slab strengths %r differ from the half-open equal-thickness slabs %r" % (where, cl.tolist(), want.tolist()))
    return hl, cl


@st.composite
def profile(draw, allow_zero=False, max_n=60):
    N = draw(st.one_of(st.integers(2, max_n), st.integers(1, 3)))          # a single-layer "profile" is a profile
    kind = draw(st.sampled_from(["linspace", "arange", "irregular", "clustered"]))
    lo, hi = draw(st.sampled_from(RANGES))
    seed = draw(st.integers(0, 2**32 - 1))
    rng = gen.np_rng(seed)
    if kind == "linspace":
        h = np.linspace(lo, hi, N)
    elif kind == "arange":
        stp = (hi - lo) / N
        h = np.arange(N) * stp + lo
    elif kind == "irregular":
        h = np.sort(rng.uniform(lo, hi, size=N))
    else:
        c = rng.uniform(lo, hi, size=max(1, N // 6))
        h = np.sort(np.abs(rng.choice(c, size=N) + rng.normal(scale=(hi - lo) * 1e-3, size=N)))
    h = np.unique(h)
    while len(h) < min(N, 2):
        h = np.append(h, h[-1] + (hi - lo) * 0.1 + 1e-6)
    if draw(st.integers(0, 5)) == 0 and len(h) >= 3:
        # two layers tabulated at exactly the same height (e.g. two wind components) are still two layers
        k_ = int(rng.integers(0, len(h) - 1))
        h = np.sort(np.append(h, [h[k_]] * int(rng.integers(1, 3))))
        kind = kind + "_dup"
    N = len(h)
    p = np.exp(rng.uniform(math.log(1e-16), math.log(1e-13), size=N))
    if allow_zero and draw(st.booleans()):
        p[rng.uniform(size=N) < 0.3] = 0.0
        if not p.any():
            p[0] = 1e-15
    w = rng.uniform(1, 60, size=N)
    L = draw(st.integers(1, N))                                # "any target layer count": as many layers as the input has is one
    wdt = draw(st.sampled_from(["float64", "float64", "float32", "int64", "int32"]))
    if wdt.startswith("int"):
        w = np.maximum(np.round(w), 1).astype(wdt)            # whole-m/s wind tables are valid input
    else:
        w = w.astype(wdt)
    if draw(st.integers(0, 4)) == 0 and (len(h) < 2 or float(np.min(np.diff(h))) > 2.0):
        h = np.round(h).astype("int64")                        # whole-metre height tables too
    return {"h": h, "p": p, "w": w, "L": L, "kind": kind}


# ------------------------------------------------------------------ equivalent layers

@st.composite
def el_cases(draw):
    pr = draw(profile(allow_zero=True))
    pr["use_w"] = draw(st.booleans())
    # layers listed in another order than by height (descending tables, two instruments' profiles concatenated): slab
    # membership, totals and moments do not depend on the order in which the layers are listed
    pr["order"] = draw(st.sampled_from(["ascending", "ascending", "descending", "shuffled", "two_tables"]))
    pr["perm_seed"] = draw(st.integers(0, 2**32 - 1))
    return pr


def el_body(ctx, case):
    h, p, L = case["h"], case["p"], case["L"]
    ctx.case(case, nontrivial=case["kind"] in ("irregular", "clustered") or L >= 3, classes=[case["kind"], "L1" if L == 1 else ("L2" if L == 2 else "L3plus"), "wind" if case["use_w"] else "no_wind", "zeros" if (p == 0).any() else "positive", "w_" + str(case["w"].dtype), "h_" + str(h.dtype)])
    w = case["w"]
    order = case.get("order", "ascending")
    if order != "ascending" and len(h) >= 2:
        n = len(h)
        if order == "descending":
            perm = np.arange(n)[::-1]
        elif order == "shuffled":
            perm = gen.np_rng(case["perm_seed"]).permutation(n)
        else:
            perm = np.concatenate([np.arange(0, n, 2), np.arange(1, n, 2)])
        h, p, w = h[perm].copy(), p[perm].copy(), w[perm].copy()
    ctx.classes["order_" + order] += 1
    check_equivalent(ctx, h, p, L, w if case["use_w"] else None)


def el_enum_run(ctx):
    nmax = 40 if ctx.tier == "quick" else 80
    n = nt = 0
    sample = None
    for ri, (lo, hi) in enumerate(RANGES):
        for N in range(2, nmax + 1):
            if (ri * 100 + N) % ctx.nshards != ctx.shard:
                continue
            for grid in ("linspace", "arange"):
                h = np.linspace(lo, hi, N) if grid == "linspace" else lo + np.arange(N) * ((hi - lo) / N)
                p = np.ones(N) * 1e-15 * (1 + np.arange(N) % 3)
                for L in range(1, N):
                    n += 1
                    nt += 1 if L >= 3 else 0
                    case = {"h": h, "p": p, "w": p, "L": L, "kind": grid, "use_w": False}
                    try:
                        check_equivalent(ctx, h, p, L, None, where=" [%s(%r,%r,N=%d)]" % (grid, lo, hi, N))
                    except Violation as e:
                        raise Failure(case, e, None)
                    if sample is None and L >= 3:
                        sample = {"grid": grid, "range": [lo, hi], "N": N, "L": L}
    ctx.bulk(n, nt, sample=sample)
    if ctx.shard == 0:
        ctx.exhaustive.append("equivalent_layers: every (N in 2..%d, 1<=L<N) x 12 height ranges x {linspace, arange} regular grids" % nmax)


# ------------------------------------------------------------------ optimal grouping

@st.composite
def og_cases(draw, max_n=22):
    pr = draw(profile(allow_zero=False, max_n=max_n))
    if draw(st.integers(0, 3)) == 0:
        # a nearly uniform profile on a regular grid with L dividing N: the equal split is unambiguous and close to optimal,
        # so a search that starts somewhere else and only descends has to get at least that far
        L = draw(st.integers(2, 5))
        k = draw(st.integers(2, 5))
        N = L * k
        rng = gen.np_rng(draw(st.integers(0, 2**32 - 1)))
        p_ = rng.integers(1, 3, size=N).astype(float) if draw(st.booleans()) else np.exp(rng.normal(0, 0.3, size=N))
        pr = {"h": np.arange(N) * 1000.0, "p": p_ * 1e-14, "L": L, "kind": "near_uniform", "w": None}
    pr["R"] = draw(st.integers(0, 3))
    pr["npseed"] = draw(st.integers(0, 2**32 - 1))
    # whole-metre altitude tables stored as unsigned integers (uint16 holds every altitude up to 65 km)
    if draw(st.integers(0, 3)) == 0 and float(np.max(pr["h"])) < 65000 and len(np.unique(np.round(pr["h"]))) == len(pr["h"]):
        pr["h"] = np.round(pr["h"]).astype(draw(st.sampled_from(["uint16", "uint32", "uint64"])))
    return pr


def group_cost(h, p, groups):
    tot = 0.0
    for g in groups:
        hg, pg = h[g], p[g]
        tot += min(float(np.sum(pg * np.abs(hg - hr))) for hr in hg)
    return tot


def og_body(ctx, case):
    pc = PC()
    h, p, L, R = case["h"], case["p"], case["L"], case["R"]
    N = len(h)
    ctx.case(case, nontrivial=case["kind"] in ("irregular", "clustered") or L >= 3, classes=[case["kind"], "L1" if L == 1 else ("L2" if L == 2 else "L3plus"), "R%d" % R])
    h0, p0 = h.copy(), p.copy()
    st0 = np.random.get_state()
    np.random.seed(case["npseed"] % (2**32))
    try:
        hl, cl = pc.optimal_grouping(R, L, h, p)
    finally:
        np.random.set_state(st0)
    ctx.equal(h, h0, "optimal_grouping modified h")
    ctx.equal(p, p0, "optimal_grouping modified p")
    if h.dtype.kind == "u":
        ctx.classes["heights_" + str(h.dtype)] += 1
    h = h.astype(np.float64)            # the oracle computes with the numbers, not modulo the container's range
    hl, cl = np.asarray(hl), np.asarray(cl)
    ctx.require(hl.shape == (L,) and cl.shape == (L,), "optimal_grouping: %d heights / %d strengths returned, expected exactly L=%d (N=%d)" % (len(hl), len(cl), L, N))
    ctx.require(bool(np.all(cl >= 0)), "optimal_grouping: negative strength")
    tot = float(p.sum())
    ctx.close(float(cl.sum()), tot, 1e-12, "optimal_grouping conserves total Cn2", scale=tot, name="OG total cn2")
    ctx.require(all(float(x) in set(h.tolist()) for x in hl), "optimal_grouping: returned heights are not input heights")
    dup = len(np.unique(h)) < len(h)
    ctx.require(bool(np.all(np.diff(hl) > 0) or (dup and np.all(np.diff(hl) >= 0))) if L > 1 else True, "optimal_grouping: heights not increasing")
    # recover the contiguous grouping from cumulative strengths
    cs, cg = np.cumsum(p), np.cumsum(cl)
    bounds = [0]
    for i in range(L):
        cand = np.nonzero(np.abs(cs - cg[i]) <= 1e-12 * tot)[0]
        cand = cand[cand + 1 > bounds[-1]]
        k = int(cand[0]) if len(cand) else int(np.argmin(np.abs(cs - cg[i])))
        ctx.require(abs(cs[k] - cg[i]) <= 1e-12 * tot and k + 1 > bounds[-1], "optimal_grouping: strengths are not sums over contiguous, non-empty groups of input layers")
        bounds.append(k + 1)
    ctx.require(bounds[-1] == N, "optimal_grouping: a layer of the input was dropped")
    groups = [np.arange(bounds[i], bounds[i + 1]) for i in range(L)]
    for i, g in enumerate(groups):
        ctx.require(float(hl[i]) in set(h[g].tolist()), "optimal_grouping: height %d is not a member of its group" % i)
        best = min(float(np.sum(p[g] * np.abs(h[g] - hr))) for hr in h[g])
        mine = float(np.sum(p[g] * np.abs(h[g] - hl[i])))
        ctx.require(mine <= best * (1 + 1e-9) + 1e-300, "optimal_grouping: representative height of group %d does not minimise the group cost" % i)
    # "no worse than the equal split": the equal split has groups of N/L layers each when L divides N; otherwise every
    # contiguous grouping whose sizes are floor(N/L) or ceil(N/L) is an equal split, and the result is required to be no worse
    # than the worst of them (it may not lose against every balanced grouping)
    import itertools
    lo_, extra = divmod(N, L)
    costs = []
    for big in itertools.combinations(range(L), extra):
        sizes = [lo_ + (1 if i in big else 0) for i in range(L)]
        if min(sizes) < 1:
            continue
        b2 = np.concatenate([[0], np.cumsum(sizes)])
        costs.append(group_cost(h, p, [np.arange(b2[i], b2[i + 1]) for i in range(L)]))
        if len(costs) >= 500:
            break
    if costs:
        c_equal = max(costs)
        c_mine = group_cost(h, p, groups)
        ctx.classes["L_divides_N" if extra == 0 else "L_does_not_divide_N"] += 1
        ctx.require(c_mine <= c_equal * (1 + 1e-9) + 1e-300, "optimal_grouping(R=%d, L=%d, N=%d): cost %r worse than the equal split %r" % (R, L, N, c_mine, c_equal))


# ------------------------------------------------------------------ GCTM

@st.composite
def gctm_cases(draw):
    # L up to 7: above 4 scipy's L-BFGS-B gives up (success == False) on about 3 % of the profiles, which is the only
    # region where what the code does with a failed optimisation can be seen (seeded C18-8)
    L = draw(st.integers(2, 7))
    N = draw(st.integers(max(6, L + 2), 40))
    kind = draw(st.sampled_from(["regular", "irregular"]))
    seed = draw(st.integers(0, 2**32 - 1))
    rng = gen.np_rng(seed)
    hi = draw(st.sampled_from([15000.0, 20000.0, 25000.0]))
    if kind == "regular":
        h = np.linspace(0, hi, N)
    else:
        # irregular heights but every one of the L slabs non-empty: one point forced per slab
        edges = np.linspace(0, hi, L + 1)
        forced = [rng.uniform(edges[i] + 1e-3 * hi, edges[i + 1] - 1e-3 * hi) for i in range(L)]
        h = np.sort(np.concatenate([forced, rng.uniform(0, hi, size=max(0, N - L - 2)), [0.0, hi]]))
    p = np.exp(rng.uniform(math.log(5e-16), math.log(5e-14), size=len(h)))
    # the same profile in other units (heights in km, strengths as fractions or in units of 1e-13), with the scaling
    # keywords set to match: h_scaling / cn2_scaling exist for exactly that
    units = draw(st.sampled_from([None, None, "km", "fraction", "km+fraction", "1e-13"]))
    return {"h": h, "p": p, "L": L, "kind": kind, "units": units}


def gctm_body(ctx, case):
    pc = PC()
    h, p, L = case["h"], case["p"], case["L"]
    ctx.case(case, nontrivial=case["kind"] == "irregular" or L >= 3, classes=[case["kind"], "L%d" % L])
    h0, p0 = h.copy(), p.copy()
    units = case.get("units")
    ua = 1e-3 if units and "km" in units else 1.0
    ub = (1.0 / float(np.sum(p)) if units and "fraction" in units else 1e13 if units == "1e-13" else 1.0)
    with warnings.catch_warnings():
        warnings.simplefilter("ignore")
        if units:
            ctx.classes["units_" + units] += 1
            hu, pu = h * ua, p * ub
            hl, cl = pc.GCTM(hu, pu, L, h_scaling=10000.0 * ua, cn2_scaling=100e-15 * ub)
            hl, cl = np.asarray(hl) / ua, np.asarray(cl) / ub
        else:
            hl, cl = pc.GCTM(h, p, L)
        gh, gc = pc.equivalent_layers(h, p, L)
    ctx.equal(h, h0, "GCTM modified h")
    ctx.equal(p, p0, "GCTM modified p")
    hl, cl = np.asarray(hl), np.asarray(cl)
    ctx.require(hl.shape == (L,) and cl.shape == (L,), "GCTM: %d layers returned, expected %d" % (len(cl), L))
    ctx.require(bool(np.all(cl >= 0) and np.all(hl >= 0)), "GCTM: negative strength or height")
    hs, cs = 10000.0, 100e-15
    def mom(hh, pp):
        return np.array([np.sum((pp / cs) * (hh / hs) ** i) for i in range(2 * L - 1)])
    m0 = mom(h, p)
    obj = float(np.sum((mom(hl, cl) - m0) ** 2))
    obj_guess = float(np.sum((mom(gh, gc) - m0) ** 2))
    ctx.require(obj <= obj_guess * (1 + 1e-9) + 1e-18, "GCTM: moment objective %r worse than at its own starting guess %r" % (obj, obj_guess))
    # Returning the starting guess untouched is "optimiser accuracy" only if the guess is already a stationary point of the
    # bounded problem (L-BFGS-B's own stopping rule: projected gradient <= 1e-5).  The exact optimum is 0 (the L-point Gauss
    # quadrature of the profile reproduces 2L moments), so a start with a large objective and a large projected gradient
    # that comes back unchanged means no optimisation was delivered.
    x0 = np.hstack([gh / hs, gc / cs])
    xr = np.hstack([hl / hs, cl / cs])
    if np.allclose(xr, x0, rtol=1e-12, atol=0.0):
        ctx.classes["result_is_the_start"] += 1
        k = np.arange(2 * L - 1)
        hh, cc = x0[:L], x0[L:]
        r = mom(gh, gc) - m0
        g_c = 2 * (hh[None, :] ** k[:, None] * r[:, None]).sum(0)
        g_h = 2 * (cc[None, :] * k[:, None] * hh[None, :] ** np.maximum(k[:, None] - 1, 0) * r[:, None]).sum(0)
        g = np.hstack([g_h, g_c])
        pg = np.where((x0 > 0) | (g < 0), g, 0.0)
        ctx.require(not (obj_guess > 1e-6 and float(np.max(np.abs(pg))) > 1e-3),
                    "GCTM returned its equivalent-layers starting guess unchanged although the guess is not stationary (objective %.3g, projected gradient %.3g; the exact optimum is 0), L=%d N=%d" % (obj_guess, float(np.max(np.abs(pg))), L, len(h)))
    else:
        ctx.classes["result_moved_from_the_start"] += 1
    rel = float(np.max(np.abs(mom(hl, cl) - m0) / m0))
    if L >= 5:
        # the calibrated accuracy bounds below are for L <= 4 (12th powers of the height at L = 7 make the relative error
        # of the highest moments meaningless as a per-case figure); for L >= 5 the laws are: not worse than the start,
        # and not the start itself
        ctx.residual("gctm_relative_moment_error_L5to7 (reported, not bounded)", rel, 1e30)
        return
    # "to optimiser accuracy" has a heavy tail when L is close to N (L-BFGS-B stops on a flat objective: 6 % was seen once in
    # 8000 cases, median 3e-6).  Per case only a gross-error bound is asserted; the accuracy claim is decided over a whole
    # sample by the law gctm_sample (quantiles), which an off-by-one in the moment count or a wrong scaling shifts as a whole.
    ctx.residual("gctm_relative_moment_error", rel, 0.5)
    ctx.require(rel <= 0.5, "GCTM: first 2L-1 moments reproduced only to %.3g (> 0.5), L=%d" % (rel, L))


def gctm_sample_cases(tier):
    return [{"seed": s, "n": 120} for s in range(2 if tier == "quick" else 16)]


def gctm_sample_body(ctx, case):
    """Quantiles of the relative moment error over a fixed sample of profiles (a pure function of the case)."""
    pc = PC()
    rng = gen.np_rng(1000003 * (ctx.seed if hasattr(ctx, "seed") else 0) + case["seed"])
    rels = []
    hs, cs = 10000.0, 100e-15
    for _ in range(case["n"]):
        N, L = int(rng.integers(6, 41)), int(rng.integers(2, 5))
        hi = float(rng.choice([15000.0, 20000.0, 25000.0]))
        if rng.integers(0, 2):
            h = np.linspace(0, hi, N)
        else:
            edges = np.linspace(0, hi, L + 1)
            forced = [rng.uniform(edges[i] + 1e-3 * hi, edges[i + 1] - 1e-3 * hi) for i in range(L)]
            h = np.sort(np.concatenate([forced, rng.uniform(0, hi, size=max(0, N - L - 2)), [0.0, hi]]))
        p = np.exp(rng.uniform(math.log(5e-16), math.log(5e-14), size=len(h)))
        with warnings.catch_warnings():
            warnings.simplefilter("ignore")
            hl, cl = pc.GCTM(h.copy(), p.copy(), L)
        m0 = np.array([np.sum((p / cs) * (h / hs) ** i) for i in range(2 * L - 1)])
        m1 = np.array([np.sum((np.asarray(cl) / cs) * (np.asarray(hl) / hs) ** i) for i in range(2 * L - 1)])
        rels.append(float(np.max(np.abs(m1 - m0) / m0)))
    rels = np.sort(np.array(rels))
    med, q90 = float(np.median(rels)), float(rels[int(0.9 * len(rels))])
    ctx.case(case, nontrivial=True, classes=["sample_of_%d" % case["n"]])
    ctx.residual("gctm median relative moment error over a sample", med, 1e-3)
    ctx.residual("gctm 90th percentile relative moment error over a sample", q90, 2e-2)
    ctx.require(med <= 1e-3, "GCTM: median relative error of the first 2L-1 moments over %d profiles is %.3g (> 1e-3)" % (case["n"], med))
    ctx.require(q90 <= 2e-2, "GCTM: 90th percentile of the relative moment error over %d profiles is %.3g (> 2e-2)" % (case["n"], q90))


LAWS = [
    given_law("equivalent_layers", el_cases(), el_body, {"quick": 600, "thorough": 10000}, shards={"quick": 3, "thorough": 16}),
    Law("equivalent_layers_enum", el_enum_run, replay=lambda ctx, case: check_equivalent(ctx, case["h"], case["p"], case["L"], None), shards={"quick": 12, "thorough": 16}),
    given_law("optimal_grouping", og_cases(22), og_body, {"quick": 150, "thorough": 1000}, shards={"quick": 3, "thorough": 16}),
    given_law("gctm", gctm_cases(), gctm_body, {"quick": 240, "thorough": 2000}, shards={"quick": 3, "thorough": 16}),
    plain_law("gctm_sample", gctm_sample_cases, gctm_sample_body, shards={"quick": 2, "thorough": 16}),
]
