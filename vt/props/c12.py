"""C12 - Zernike indexing, modes, normalisations and gradient matrices."""
import math

import numpy as np
from hypothesis import strategies as st

from ..core import Failure, Law, Violation, given_law, plain_law
from .. import gen
from ..oracles import noll

RULE = ("index: every Noll j in 1..10^6 (quick) / 1..10^7 (thorough) against an enumeration of Noll's ordering from its "
        "definition (exhaustive sub-domain; every j distinct and counted non-trivial for j>=2). modes: N in 2..96 odd and "
        "even, (n,m) to n=12, unsorted j lists with repeats, norms noll/rms/p2v, rotations, coefficient vectors vs an "
        "independent exact-coefficient radial polynomial on the pixel-centre grid; non-trivial = (n>=3 or m!=0) or odd N. "
        "orthonormality: Gram matrices of the first 28/45 modes on the ladder N=32..256 (trend check). gradients: "
        "makegammas(nzrad<=7) vs 5-point finite differences of the generated modes on N=256. Distinct = canonical JSON."
        " Also: positional == keyword calls, zernike_noll(j, N, rot) == zernike_nm(n, m, N, rot), rotated mode keeps cos(rot) or cos(m rot) of itself; 66-130 coefficients on 370-1024 pixel grids (> 2^24 mode samples) against the mode-by-mode sum."
        " Law extreme_orders_support: radial orders 400 .. 1500 vanish outside the pupil, are finite and bounded by their peak."
        " Law threads: zernike_nm / zernikeArray / phaseFromZernikes on one grid size.")
ASSUMPTIONS = ["x = last array axis, y = first axis, unit = pupil radius", "p2v peak-to-valley is taken over the whole array (the code's and the design's convention), piston skipped",
               "rotation: a rotated mode must be a unit-norm combination of the (cos, sin) pair of the same (n,|m|)"]


def Z():
    from aotools.functions import zernike
    import aotools
    return zernike, aotools


# ------------------------------------------------------------------ index (exhaustive)

def index_run(ctx):
    z, _ = Z()
    jmax = 10**6 if ctx.tier == "quick" else 10**7
    n_arr, m_arr = noll.noll_table(jmax)
    lo = 1 + (jmax * ctx.shard) // ctx.nshards
    hi = (jmax * (ctx.shard + 1)) // ctx.nshards
    zi = z.zernIndex
    for j in range(lo, hi + 1):
        r = zi(j)
        if r[0] != n_arr[j] or r[1] != m_arr[j]:
            e = Violation("zernIndex(%d) = %r, Noll's ordering gives [%d, %d]" % (j, list(r), n_arr[j], m_arr[j]))
            raise Failure({"j": j}, e, None)
    ctx.bulk(hi - lo + 1, hi - lo + 1 - (1 if lo == 1 else 0), sample={"j": hi, "n": int(n_arr[hi]), "m": int(m_arr[hi])},
             exhaustive="zernIndex: all Noll indices %d..%d" % (lo, hi) if ctx.nshards == 1 else None)
    if ctx.shard == 0:
        ctx.exhaustive.append("zernIndex: every Noll index 1..%d (split over %d shards)" % (jmax, ctx.nshards))


def boundary_run(ctx):
    """Row boundaries are where a closed-form index inversion goes wrong first (a square root rounded to the wrong side of
    an integer): every boundary n(n+1)/2 + {-1, 0, 1, 2} of every row up to j = 1e8 (quick) / 1e9 (thorough)."""
    z, _ = Z()
    jmax = 10**8 if ctx.tier == "quick" else 10**9
    nmax = (math.isqrt(8 * jmax + 1) - 1) // 2
    zi = z.zernIndex
    cnt = 0
    for n in range(1 + ctx.shard, nmax, ctx.nshards):
        t = n * (n + 1) // 2
        for j in (t - 1, t, t + 1, t + 2):
            if j < 1:
                continue
            r = zi(j)
            want = noll.noll_single(j)
            cnt += 1
            if r[0] != want[0] or r[1] != want[1]:
                raise Failure({"j": j}, Violation("zernIndex(%d) = %r, Noll's ordering gives [%d, %d]" % (j, list(r), want[0], want[1])), None)
    ctx.bulk(cnt, cnt, sample={"j": t, "n": n}, exhaustive=None)
    if ctx.shard == 0:
        ctx.exhaustive.append("zernIndex: the four indices around every row boundary n(n+1)/2 for all rows with j <= %d" % jmax)


def narrow_index_run(ctx):
    """Index arrays are often stored in the narrowest integer type that holds them: every j that fits numpy.uint8 / int8 /
    int16 / uint16 must map to the same (n, m) as the Python int (exhaustive)."""
    z, _ = Z()
    import warnings as _w
    cnt = 0
    for tname, top in (("uint8", 255), ("int8", 127), ("int16", 32767), ("uint16", 65535)):
        T = getattr(np, tname)
        for j in range(1, top + 1):
            with _w.catch_warnings():
                _w.simplefilter("ignore")
                try:
                    r = z.zernIndex(T(j))
                except Exception as e:
                    raise Failure({"j": j, "type": tname}, Violation("zernIndex(numpy.%s(%d)) raised %s: %s" % (tname, j, type(e).__name__, e)), None)
            want = noll.noll_single(j)
            cnt += 1
            if int(r[0]) != want[0] or int(r[1]) != want[1]:
                raise Failure({"j": j, "type": tname}, Violation("zernIndex(numpy.%s(%d)) = %r, Noll's ordering gives [%d, %d]" % (tname, j, [int(r[0]), int(r[1])], want[0], want[1])), None)
    # the (n, m) entry point with orders taken from a narrow integer table
    for tname in ("int8", "uint8", "int16", "uint16"):
        T = getattr(np, tname)
        for n_, m_ in ((2, 0), (3, 1), (4, 2), (7, 3), (12, 4), (40, 0), (100, 2)):
            with _w.catch_warnings():
                _w.simplefilter("ignore")
                got = np.asarray(z.zernike_nm(T(n_), T(m_), 16))
            want = np.asarray(z.zernike_nm(n_, m_, 16))
            cnt += 1
            if not (got.shape == want.shape and np.allclose(got, want, rtol=0, atol=1e-12 * math.sqrt(2 * n_ + 2), equal_nan=False)):
                raise Failure({"n": n_, "m": m_, "type": tname}, Violation("zernike_nm(numpy.%s(%d), numpy.%s(%d), 16) differs from zernike_nm(%d, %d, 16) by %.3g" % (
                    tname, n_, tname, m_, n_, m_, float(np.nanmax(np.abs(got - want))) if np.isfinite(got).any() else float("nan"))), None)
    ctx.bulk(cnt, cnt, sample={"j": 65535, "type": "uint16"}, exhaustive="zernIndex: every j representable in numpy.uint8 / int8 / int16 / uint16, passed in that type")


def narrow_index_replay(ctx, case):
    z, _ = Z()
    if "n" in case:
        T = getattr(np, case["type"])
        got, want = np.asarray(z.zernike_nm(T(case["n"]), T(case["m"]), 16)), np.asarray(z.zernike_nm(case["n"], case["m"], 16))
        ctx.close(got, want, 1e-12, "zernike_nm with numpy.%s orders == zernike_nm with Python ints" % case["type"], scale=math.sqrt(2 * case["n"] + 2))
        return
    j, T = case["j"], getattr(np, case["type"])
    want = noll.noll_single(j)
    r = z.zernIndex(T(j))
    ctx.require(int(r[0]) == want[0] and int(r[1]) == want[1], "zernIndex(numpy.%s(%d)) = %r, Noll's ordering gives [%d, %d]" % (case["type"], j, [int(r[0]), int(r[1])], want[0], want[1]))


def index_replay(ctx, case):
    z, _ = Z()
    j = case["j"]
    if j > 2 * 10**7:
        want = noll.noll_single(j)
        r = z.zernIndex(j)
        ctx.require(r[0] == want[0] and r[1] == want[1], "zernIndex(%d) = %r, Noll's ordering gives [%d, %d]" % (j, list(r), want[0], want[1]))
        return
    n_arr, m_arr = noll.noll_table(j)
    r = z.zernIndex(j)
    ctx.require(r[0] == n_arr[j] and r[1] == m_arr[j], "zernIndex(%d) = %r, Noll's ordering gives [%d, %d]" % (j, list(r), n_arr[j], m_arr[j]))


# ------------------------------------------------------------------ modes

@st.composite
def mode_cases(draw, nmax=96, order=12, sizes=None):
    N = draw(st.integers(2, nmax))
    if sizes:
        N = draw(st.sampled_from(sizes))
    n = draw(st.integers(0, order))
    am = draw(st.integers(0, n // 2)) * 2 + n % 2
    m = am * draw(st.sampled_from([-1, 1]))
    js = draw(st.lists(st.integers(1, 66), min_size=1, max_size=6))
    count = draw(st.integers(1, 30))
    return {"N": N, "n": n, "m": m, "js": js, "count": max(count, 1), "norm": draw(st.sampled_from(["noll", "rms", "p2v"])),
            "rot": draw(st.one_of(st.just(0.0), st.floats(-math.pi, math.pi))),
            "coeffs": [draw(st.one_of(gen.dyadic(-4, 4, 16), gen.signed_logfloat(1e-14, 1e3), st.just(0.0))) for _ in range(draw(st.integers(1, 12)))]}


def mode_body(ctx, case):
    z, aot = Z()
    N, n, m, js, norm, rot = case["N"], case["n"], case["m"], case["js"], case["norm"], case["rot"]
    ctx.case(case, nontrivial=(n >= 3 or m != 0) or N % 2 == 1, classes=["odd_N" if N % 2 else "even_N", "norm_" + norm, "rot0" if rot == 0 else "rot"])
    # (n, m) mode vs oracle
    got = z.zernike_nm(n, m, N)
    want, inside = noll.mode(n, m, N)
    ctx.require(got.shape == (N, N), "zernike_nm shape %s" % (got.shape,))
    ctx.require(not np.any(got[~inside]), "zernike_nm(%d,%d,%d) non-zero outside the inscribed pupil" % (n, m, N))
    ctx.close(got, want, 1e-10, "zernike_nm(n,m,N) vs independent polynomial", scale=math.sqrt(2 * (n + 1)) * 2 ** max(0, n - 2))
    # zernike_noll(j) == zernike_nm(zernIndex(j))
    j0 = js[0]
    nt, mt = noll.noll_table(j0)
    ctx.close(z.zernike_noll(j0, N), noll.mode(int(nt[j0]), int(mt[j0]), N)[0], 1e-10, "zernike_noll(j,N) vs independent polynomial of Noll's (n,m)", scale=math.sqrt(2 * (nt[j0] + 1)) * 2 ** max(0, int(nt[j0]) - 2))
    ctx.equal(aot.zernike_noll(j0, N), z.zernike_noll(j0, N), "aotools.zernike_noll vs module")
    # list == slices of count (bit exact), for every normalisation and rotation
    cnt = max(max(js), 1)
    full = z.zernikeArray(cnt, N, norm=norm, rot=rot)
    ctx.require(full.shape == (cnt, N, N), "zernikeArray shape %s" % (full.shape,))
    lst = z.zernikeArray(list(js), N, norm=norm, rot=rot)
    ctx.equal(lst, full[[j - 1 for j in js]], "zernikeArray(list) == slices of zernikeArray(count)")
    pupil = inside
    ctx.require(not np.any(full[:, ~pupil]), "zernikeArray non-zero outside the pupil")
    npx = float(pupil.sum())
    if norm == "rms":
        for k in range(cnt):
            ms = float(np.sum(full[k] ** 2)) / npx
            if np.any(full[k]):
                ctx.close(ms, 1.0, 1e-10, "rms normalisation: mean square over the pupil == 1", scale=1.0)
    elif norm == "p2v":
        for k in range(1, cnt):
            if N >= 4 and np.all(np.isfinite(full[k])):
                ctx.close(float(full[k].max() - full[k].min()), 1.0, 1e-10, "p2v normalisation: max-min == 1", scale=1.0)
    # rotation: the rotated cosine and sine modes of a pair must be ONE proper rotation of the unrotated pair
    if rot != 0.0 and N >= 16:
        for nn, am in ((1, 1), (2, 2), (3, 1), (4, 2), (5, 3)):
            zc, zs = noll.mode(nn, am, N)[0], noll.mode(nn, -am, N)[0]
            Amat = np.stack([zc.ravel(), zs.ravel()], axis=1)
            rows = []
            for mm in (am, -am):
                zr = z.zernike_nm(nn, mm, N, rot)
                ab, *_ = np.linalg.lstsq(Amat, zr.ravel(), rcond=None)
                ctx.close(Amat @ ab, zr.ravel(), 1e-9, "rotated mode lies in the span of its (cos, sin) pair", scale=math.sqrt(2 * (nn + 1)) * 2 ** max(0, nn - 2), name="rotated mode in span")
                rows.append(ab)
            Rm = np.array(rows)
            ctx.close(Rm @ Rm.T, np.eye(2), 1e-8, "rotated cosine and sine modes stay orthonormal (the pair is rotated as a whole)", scale=1.0, name="rotation of the pair is orthogonal")
            ctx.close(float(np.linalg.det(Rm)), 1.0, 1e-8, "rotated pair keeps its orientation (proper rotation)", scale=1.0, name="rotation of the pair is proper")
    if rot != 0.0 and norm == "noll" and N >= 8:
        for j in js[:3]:
            nn, mm = int(nt[j]) if j <= j0 else int(noll.noll_table(j)[0][j]), None
            nj, mj = noll.noll_table(j)
            nn, mm = int(nj[j]), int(mj[j])
            zr = z.zernike_noll(j, N, rot)
            # the documented signatures: (j, N, rot) positionally is (j, N, rot=rot), and the Noll entry is the (n, m) entry
            ctx.equal(z.zernike_noll(j, N, rot=rot), zr, "zernike_noll(j, N, rot) given positionally differs from zernike_noll(j, N, rot=rot)")
            ctx.equal(zr, z.zernike_nm(nn, mm, N, rot), "zernike_noll(j, N, rot) differs from zernike_nm(n, m, N, rot) of Noll's (n, m)")
            if mm == 0:
                ctx.close(zr, noll.mode(nn, 0, N)[0], 1e-10, "rotation leaves m=0 modes unchanged", scale=math.sqrt(nn + 1) * 2 ** max(0, nn - 2))
            else:
                zc, zs = noll.mode(nn, abs(mm), N)[0], noll.mode(nn, -abs(mm), N)[0]
                Amat = np.stack([zc.ravel(), zs.ravel()], axis=1)
                if np.linalg.matrix_rank(Amat) < 2:
                    continue
                ab, *_ = np.linalg.lstsq(Amat, zr.ravel(), rcond=None)
                ctx.close(Amat @ ab, zr.ravel(), 1e-9, "rotated mode lies in the span of its (cos, sin) pair", scale=math.sqrt(2 * (nn + 1)) * 2 ** max(0, nn - 2))
                ctx.close(float(ab[0] ** 2 + ab[1] ** 2), 1.0, 1e-8, "rotated mode is a unit combination of its pair", scale=1.0)
                # ... by the requested angle (as a rotation of the pattern, m rot, or of the azimuthal phase, rot; either sense)
                own = ab[0] if mm > 0 else ab[1]
                ctx.require(min(abs(own - math.cos(rot)), abs(own - math.cos(abs(mm) * rot))) <= 1e-7, "zernike_noll(%d, %d, rot=%r): the mode keeps a fraction %r of itself, expected cos(rot) = %r or cos(m rot) = %r - the requested rotation was not applied" % (j, N, rot, float(own), math.cos(rot), math.cos(abs(mm) * rot)))
    # phase from coefficients
    co = case["coeffs"]
    ph = z.phaseFromZernikes(list(co), N, norm=norm, rot=rot)
    zs = z.zernikeArray(len(co), N, norm=norm, rot=rot)
    ctx.equal(z.zernikeArray(len(co), N, norm, rot), zs, "zernikeArray(J, N, norm, rot) given positionally differs from the keyword call", nan_ok=True)
    ctx.equal(z.phaseFromZernikes(list(co), N, norm, rot), ph, "phaseFromZernikes(c, N, norm, rot) given positionally differs from the keyword call", nan_ok=True)
    want_ph = np.tensordot(np.array(co), zs, axes=1)
    if np.all(np.isfinite(zs)):     # p2v-normalised piston is 0/0 on grids without an outside pixel: undefined, not judged
        ctx.close(ph, want_ph, 1e-12, "phaseFromZernikes == sum c_i Z_i", scale=float(np.max(np.abs(want_ph))) or 1.0)
        # homogeneity: every coefficient counts, however small
        tiny = 2.0 ** -40
        ph_t = z.phaseFromZernikes([c_ * tiny for c_ in co], N, norm=norm, rot=rot)
        ctx.close(ph_t, want_ph * tiny, 1e-12, "phaseFromZernikes(c * 2^-40) == 2^-40 * phase", scale=(float(np.max(np.abs(want_ph))) or 1.0) * tiny, name="phase homogeneity")


# ------------------------------------------------------------------ orthonormality ladder

def gram_cases(tier):
    return [{"nmodes": 28, "ladder": [32, 64, 128, 256], "c": 4.0}, {"nmodes": 45, "ladder": [32, 64, 128, 256], "c": 6.0}]


def gram_body(ctx, case):
    z, _ = Z()
    errs = []
    for N in case["ladder"]:
        Zs = z.zernikeArray(case["nmodes"], N)
        pupil = noll.mode(0, 0, N)[1]
        G = np.tensordot(Zs, Zs, axes=([1, 2], [1, 2])) / float(pupil.sum())
        err = float(np.max(np.abs(G - np.eye(case["nmodes"]))))
        errs.append(err)
        ctx.residual("gram_%d_modes_N%d" % (case["nmodes"], N), err, case["c"] / N)
        ctx.require(err <= case["c"] / N, "Gram matrix of the first %d Noll modes: max|G-I| = %.3g > %.3g at N=%d" % (case["nmodes"], err, case["c"] / N, N))
    ctx.case(case, nontrivial=True)
    ctx.note("gram_errors_%d" % case["nmodes"], errs)
    ctx.require(all(errs[i + 1] < errs[i] for i in range(len(errs) - 1)), "Gram error does not decrease along the ladder: %r" % errs)


# ------------------------------------------------------------------ gradients

def gamma_cases(tier):
    return [{"nzrad": k, "N": 256} for k in (range(1, 6) if tier == "quick" else range(1, 8))]


def gamma_body(ctx, case):
    z, _ = Z()
    nzrad, N = case["nzrad"], case["N"]
    g = z.makegammas(nzrad)
    nz = (nzrad + 1) * (nzrad + 2) // 2
    ctx.case(case, nontrivial=nzrad >= 2)
    ctx.require(g.shape == (2, nz, nz), "makegammas(%d) shape %s, expected (2,%d,%d)" % (nzrad, g.shape, nz, nz))
    Zs = np.stack([noll.mode(int(n_), int(m_), N)[0] for n_, m_ in zip(*[a[1:nz + 1] for a in noll.noll_table(nz)])])
    code = z.zernikeArray(nz, N)
    ctx.close(code, Zs, 1e-9, "zernikeArray vs oracle modes (gradient test basis)", scale=float(np.max(np.abs(Zs))))
    h = 2.0 / N
    c = (np.arange(N) + 0.5 - N / 2.0) / (N / 2.0)
    X, Y = np.meshgrid(c, c)
    interior = (np.sqrt(X * X + Y * Y) + 3 * h * math.sqrt(2)) <= 1.0
    def d(a, axis):
        return (-np.roll(a, -2, axis) + 8 * np.roll(a, -1, axis) - 8 * np.roll(a, 1, axis) + np.roll(a, 2, axis)) / (12 * h)
    gx, gy = g[0].astype(np.float64), g[1].astype(np.float64)
    dx = np.stack([d(code[i], 1) for i in range(nz)])
    dy = np.stack([d(code[i], 0) for i in range(nz)])
    px = np.tensordot(gx, code, axes=1)
    py = np.tensordot(gy, code, axes=1)
    scale = max(float(np.max(np.abs(dx[:, interior]))), float(np.max(np.abs(dy[:, interior]))), 1.0)
    ctx.close(px[:, interior], dx[:, interior], 2e-5, "gamma_x reproduces dZ/dx (finite differences of the generated modes)", scale=scale)
    ctx.close(py[:, interior], dy[:, interior], 2e-5, "gamma_y reproduces dZ/dy (finite differences of the generated modes)", scale=scale)
    # structure: lower triangular, only |dm| = 1 and lower radial order
    nt, mt = noll.noll_table(nz)
    for G in (gx, gy):
        ctx.require(not np.any(np.triu(G, 1)), "gamma matrix not lower triangular")
        for i in range(nz):
            for j in range(nz):
                if G[i, j] != 0:
                    ctx.require(abs(abs(mt[i + 1]) - abs(mt[j + 1])) == 1 and nt[j + 1] < nt[i + 1], "gamma[%d,%d] non-zero for (n,m)=(%d,%d)->(%d,%d)" % (i, j, nt[i + 1], mt[i + 1], nt[j + 1], mt[j + 1]))


# ------------------------------------------------------------------ many modes on a large grid

def big_phase_cases(tier):
    return [{"ncoef": 66, "N": 512, "norm": "noll", "rot": 0.0}, {"ncoef": 18, "N": 1024, "norm": "rms", "rot": 0.3}, {"ncoef": 130, "N": 370, "norm": "noll", "rot": 0.0}]


def big_phase_body(ctx, case):
    """More than 2^24 mode samples in one call (an ELT-sized phase map from a hundred coefficients): still that linear
    combination - every coefficient counts."""
    z, _ = Z()
    k, N = case["ncoef"], case["N"]
    ctx.case(case, nontrivial=True, classes=["samples_%d" % (k * N * N)])
    rng = gen.np_rng(k * 1000 + N)
    co = rng.integers(-8, 9, size=k) / 4.0
    co[co == 0] = 0.25
    ph = z.phaseFromZernikes(list(co), N, norm=case["norm"], rot=case["rot"])
    want = np.zeros((N, N))
    for j in range(1, k + 1):
        want += co[j - 1] * z.zernikeArray([j], N, norm=case["norm"], rot=case["rot"])[0]
    ctx.close(ph, want, 1e-11, "phaseFromZernikes of %d coefficients on a %d-pixel grid == sum c_j Z_j accumulated mode by mode" % (k, N), scale=float(np.max(np.abs(want))) or 1.0, name="large phase")


def self_test():
    noll.self_test()


def high_order_cases(tier):
    out = []
    for n in range(13, 31):
        for am in sorted({n % 2, (n % 2) + 2 if n >= 2 else n % 2, n - 4 if n >= 4 else n, n - 2, n}):
            if 0 <= am <= n and (n - am) % 2 == 0:
                out.append({"n": n, "m": am if (n + am) % 4 else -am, "N": 48 if tier == "quick" else 96})
    return out


def high_order_body(ctx, case):
    z, _ = Z()
    n, m, N = case["n"], case["m"], case["N"]
    ctx.case(case, nontrivial=True, classes=["n_ge_21" if n >= 21 else "n_13_20"])
    got = z.zernike_nm(n, m, N)
    want, inside = noll.mode(n, m, N)
    # the code sums alternating terms of size up to C(n, n/2)^2 in floating point: allow that much rounding, no more
    import math as _m
    amp = _m.sqrt(2 * (n + 1)) * sum(_m.comb(n - k, k) * _m.comb(n - 2 * k, (n - abs(m)) // 2 - k) for k in range((n - abs(m)) // 2 + 1))
    ctx.close(got, want, 1e-13, "zernike_nm(n=%d, m=%d) vs exact-coefficient polynomial" % (n, m), scale=amp, name="high order modes")
    ctx.require(not np.any(got[~inside]), "high-order mode non-zero outside the pupil")
    # Noll index of this (n, m) and back
    for j, nn, mm in noll.noll_rows(n):
        if nn == n and mm == m:
            ctx.require(list(z.zernIndex(j)) == [n, m], "zernIndex(%d) != [%d, %d]" % (j, n, m))
            ctx.close(z.zernike_noll(j, N), got, 0, "zernike_noll(j) == zernike_nm(n, m)", scale=1.0, name="noll vs nm")
            break


def thread_cases(tier):
    return [{"N": 128, "what": "zernike_nm"}, {"N": 96, "what": "zernikeArray"}, {"N": 128, "what": "phaseFromZernikes"}]


def thread_body(ctx, case):
    """Modes generated at the same time by threads of one process (a thread pool over modes, the same grid size) are the
    modes generated one after the other."""
    z, _ = Z()
    N = case["N"]
    ctx.case(case, nontrivial=True, classes=[case["what"]])
    if case["what"] == "zernike_nm":
        thunks = [(lambda n=n, m=m: z.zernike_nm(n, m, N, 0.1 * n)) for n, m in ((3, 1), (3, -1), (4, 2), (5, -3), (6, 0), (7, 5), (8, -2), (9, 9))]
    elif case["what"] == "zernikeArray":
        thunks = [(lambda k=k: z.zernikeArray([2 + k, 5 + k, 9 + k], N, norm=("noll", "rms", "p2v")[k % 3], rot=0.2 * k)) for k in range(8)]
    else:
        thunks = [(lambda k=k: z.phaseFromZernikes([0.5 * k, -1.0, 0.25, k, 2.0, -0.5 * k][:3 + k % 4], N, norm="noll", rot=0.1 * k)) for k in range(8)]
    ctx.thread_agreement(thunks, case["what"])


def extreme_cases(tier):
    return [{"n": n, "m": m, "N": N} for n, m, N in ((400, 0, 64), (790, 0, 64), (800, 0, 256), (1000, 2, 64), (1001, -1, 33), (1500, 0, 16))]


def extreme_body(ctx, case):
    """Radial orders of a thousand (j ~ 5e5) exist in the Noll sequence: whatever the accuracy inside, a mode vanishes
    outside the inscribed pupil and is finite on it, bounded by its peak sqrt(2(n+1))."""
    z, _ = Z()
    n, m, N = case["n"], case["m"], case["N"]
    ctx.case(case, nontrivial=True, classes=["n_%d" % n])
    with np.errstate(all="ignore"):
        import warnings
        with warnings.catch_warnings():
            warnings.simplefilter("ignore")
            got = np.asarray(z.zernike_nm(n, m, N), dtype=np.float64)
    ii = 2 * np.arange(N) + 1 - N
    inside = (ii[None, :] ** 2 + ii[:, None] ** 2) <= N * N
    ctx.require(bool(np.all(np.isfinite(got))), "zernike_nm(%d, %d, %d) is not finite (%d NaN / inf samples, %d of them outside the pupil)" % (n, m, N, int(np.sum(~np.isfinite(got))), int(np.sum(~np.isfinite(got) & ~inside))))
    ctx.require(not np.any(got[~inside]), "zernike_nm(%d, %d, %d) is non-zero outside the inscribed pupil" % (n, m, N))
    ctx.require(float(np.max(np.abs(got))) <= math.sqrt(2 * (n + 1)) * (1 + 1e-6), "zernike_nm(%d, %d, %d) exceeds its peak value sqrt(2(n+1)): %r" % (n, m, N, float(np.max(np.abs(got)))))


def very_high_cases(tier):
    ns = [13, 20, 26, 31, 36, 40, 44, 45, 50, 60] if tier == "quick" else [13, 17, 20, 26, 31, 33, 36, 40, 44, 45, 50, 55, 60, 80, 120, 170, 171, 200]
    out = []
    for n in ns:
        for am in sorted({n % 2, n % 2 + 2, n // 3 + ((n - n // 3) % 2), n - 2}):
            if 0 <= am <= n and (n - am) % 2 == 0:
                out.append({"n": n, "m": am if (n + am) % 4 else -am, "N": 32})
    return out


def very_high_body(ctx, case):
    """Hundreds to a few thousand modes are routine for high-order systems.  |R_n^m| <= 1 on the unit disc and the problem is
    well conditioned, so a mode is judged at 1e-10 of its peak sqrt(2(n+1)) against a cancellation-free (rational) evaluation."""
    from fractions import Fraction
    z, _ = Z()
    n, m, N = case["n"], case["m"], case["N"]
    ctx.case(case, nontrivial=True, classes=["n_%d_%d" % (n // 20 * 20, n // 20 * 20 + 19)])
    got = np.asarray(z.zernike_nm(n, m, N), dtype=np.float64)
    ii = 2 * np.arange(N) + 1 - N                                      # twice the pixel-centre coordinate, in pixels
    r2i = ii[None, :] ** 2 + ii[:, None] ** 2                          # (2 r N/2)^2 as integers
    inside = r2i <= N * N
    uniq = np.unique(r2i[inside])
    R = dict(zip(uniq.tolist(), noll.radial_exact(n, m, [Fraction(int(u), N * N) for u in uniq])))
    theta = np.arctan2(ii[:, None].astype(float), ii[None, :].astype(float))
    ang = 1.0 if m == 0 else (np.cos(abs(m) * theta) if m > 0 else np.sin(abs(m) * theta))
    norm = math.sqrt(n + 1) if m == 0 else math.sqrt(2 * (n + 1))
    want = np.zeros((N, N))
    want[inside] = np.array([R[int(u)] for u in r2i[inside]])
    want = want * ang * norm
    ctx.require(got.shape == (N, N) and bool(np.all(np.isfinite(got))), "zernike_nm(n=%d, m=%d): shape / finite" % (n, m))
    ctx.close(got, want, 1e-10, "zernike_nm(n=%d, m=%d, N=%d) vs cancellation-free evaluation (|R| <= 1, peak %.3g)" % (n, m, N, norm), scale=norm, name="very high order modes")


LAWS = [
    plain_law("many_modes_large_grid", big_phase_cases, big_phase_body, shards={"quick": 3, "thorough": 3}),
    plain_law("high_orders", high_order_cases, high_order_body, shards={"quick": 4, "thorough": 8}),
    plain_law("threads", thread_cases, thread_body, shards={"quick": 3, "thorough": 3}),
    plain_law("extreme_orders_support", extreme_cases, extreme_body, shards={"quick": 2, "thorough": 2}),
    plain_law("very_high_orders", very_high_cases, very_high_body, shards={"quick": 4, "thorough": 8}),
    # grid sizes beyond 512 samples (where an implementation may switch to another evaluation scheme), with rotation
    given_law("modes_realistic_size", mode_cases(96, 8, sizes=[512, 513, 600, 640]), mode_body, {"quick": 6, "thorough": 48}, shards={"quick": 3, "thorough": 16}),
    given_law("modes_xl", mode_cases(320, 20), mode_body, {"quick": 0, "thorough": 40}, shards={"quick": 1, "thorough": 16}),
    Law("noll_index", index_run, replay=index_replay, shards={"quick": 16, "thorough": 16}),
    Law("noll_index_narrow_types", narrow_index_run, replay=narrow_index_replay, shards={"quick": 1, "thorough": 1}),
    Law("noll_row_boundaries", boundary_run, replay=index_replay, shards={"quick": 4, "thorough": 16}),
    given_law("modes", mode_cases(), mode_body, {"quick": 250, "thorough": 3750}, shards={"quick": 3, "thorough": 16}),
    plain_law("gram_ladder", gram_cases, gram_body, shards={"quick": 2, "thorough": 2}),
    plain_law("gradients", gamma_cases, gamma_body, shards={"quick": 5, "thorough": 7}),
]
