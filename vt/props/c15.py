"""C15 - centroiders locate, shift, scale and batch consistently."""
import math

import numpy as np
from hypothesis import strategies as st

from ..core import given_law
from .. import gen

RULE = ("frames (ny,nx) in 2..24 (non-square, odd/even); non-negative images built as a random blob of drawn support "
        "placed in a zero frame at a drawn offset, so shifts away from the borders are constructed, not filtered; single "
        "bright pixels; stacks of 1..5 frames; thresholds in [0,1) incl. dyadic ones; brightest-pixel fractions with "
        "round(f*npix) >= 2; paddings 1..4; float64/float32/int dtypes; every call gets a private copy. Non-trivial = "
        "threshold > 0 with a stack of >= 2 different frames, or shift != 0, or padding >= 2. Distinct = canonical JSON."
        " Also: a live reference array refreshed in place; detector-size (240x320 .. 520x130) uint8/int8/uint16/int16 frames with saturated spots near the far corner."
        " The stack is compared with its copy after a thresholded call.")
ASSUMPTIONS = ["quadCell returns an unnormalised difference signal: only the mirror and batch laws apply to it",
               "correlation 'array centre' = zero-lag index N//2 on each axis; displaced copies do not wrap (compact support)",
               "shift/scale laws to 1e-9 (ratios of float sums)"]

KF_COG = "C15-cog-stack-threshold"


def C():
    from aotools.image_processing import centroiders
    return centroiders


@st.composite
def frame_with_blob(draw, min_size=2, max_size=24, max_blob=None, square=False):
    ny = draw(st.integers(min_size, max_size))
    nx = ny if square else draw(st.integers(min_size, max_size))
    bh = draw(st.integers(1, max(1, min(ny - 1, max_blob or ny))))
    bw = draw(st.integers(1, max(1, min(nx - 1, max_blob or nx))))
    seed = draw(st.integers(0, 2**32 - 1))
    rng = gen.np_rng(seed)
    kind = draw(st.sampled_from(["rand", "rand", "int", "flat"]))
    if kind == "rand":
        blob = rng.uniform(0.05, 1.0, size=(bh, bw))
        blob[rng.uniform(size=(bh, bw)) < 0.2] = 0.0
    elif kind == "int":
        blob = rng.integers(0, 50, size=(bh, bw)).astype(float)
    else:
        blob = np.ones((bh, bw))
    if not blob.any():
        blob[0, 0] = 1.0
    # make sure the blob touches its own bounding box so that support is exactly (bh, bw)
    blob[0, rng.integers(0, bw)] += 1.0
    blob[bh - 1, rng.integers(0, bw)] += 1.0
    blob[rng.integers(0, bh), 0] += 1.0
    blob[rng.integers(0, bh), bw - 1] += 1.0
    oy = draw(st.integers(0, ny - bh))
    ox = draw(st.integers(0, nx - bw))
    ky = draw(st.integers(-oy, ny - bh - oy))
    kx = draw(st.integers(-ox, nx - bw - ox))
    return {"ny": ny, "nx": nx, "blob": blob, "oy": oy, "ox": ox, "ky": ky, "kx": kx}


def place(fr, dy=0, dx=0, dtype="float64"):
    img = np.zeros((fr["ny"], fr["nx"]))
    b = fr["blob"]
    img[fr["oy"] + dy:fr["oy"] + dy + b.shape[0], fr["ox"] + dx:fr["ox"] + dx + b.shape[1]] = b
    return img.astype(dtype)


def frac_ok(f, npix):
    return int(round(f * npix)) >= 2


# ------------------------------------------------------------------ single bright pixel

@st.composite
def pixel_cases(draw):
    ny, nx = draw(st.integers(2, 24)), draw(st.integers(2, 24))
    return {"ny": ny, "nx": nx, "y": draw(st.integers(0, ny - 1)), "x": draw(st.integers(0, nx - 1)),
            "v": draw(st.sampled_from([1.0, 0.37, 1000.0, 7.0])), "t": draw(st.one_of(st.just(0.0), gen.dyadic(0, 0.984375, 64), st.floats(0, 0.999))),
            "f": draw(st.floats(0.0, 1.0)), "dtype": draw(st.sampled_from(["float64", "float32", "int64"])), "nstack": draw(st.integers(0, 3))}


def pixel_body(ctx, case):
    c = C()
    ny, nx, y, x = case["ny"], case["nx"], case["y"], case["x"]
    img = np.zeros((ny, nx))
    img[y, x] = case["v"] if case["dtype"] != "int64" else max(1, int(case["v"]))
    img = img.astype(case["dtype"])
    t = case["t"]
    ctx.case(case, nontrivial=(x, y) != (0, 0), classes=[case["dtype"], "t0" if t == 0 else "t_pos", "stack" if case["nstack"] else "single"])
    if case["nstack"]:
        st_ = np.stack([img] * case["nstack"])
        want = np.array([[x] * case["nstack"], [y] * case["nstack"]], dtype=float)
        ctx.close(c.centre_of_gravity(st_.copy(), threshold=t), want, 1e-12, "centre_of_gravity(stack of single-pixel frames)", scale=1.0)
    ctx.close(c.centre_of_gravity(img.copy(), threshold=t), np.array([x, y], dtype=float), 1e-12, "centre_of_gravity(single pixel) == (x, y)", scale=1.0)
    ctx.close(c.centre_of_gravity(img.copy()), np.array([x, y], dtype=float), 1e-12, "centre_of_gravity(single pixel), default threshold", scale=1.0)
    f = case["f"]
    if frac_ok(f, ny * nx) and int(round(f * ny * nx)) <= ny * nx:
        ctx.close(c.brightest_pixel(img.copy(), f), np.array([x, y], dtype=float), 1e-12, "brightest_pixel(single pixel) == (x, y)", scale=1.0)
        if case["nstack"]:
            ctx.close(c.brightest_pixel(np.stack([img] * case["nstack"]), f), np.array([[x] * case["nstack"], [y] * case["nstack"]], dtype=float), 1e-12, "brightest_pixel(stack of single-pixel frames)", scale=1.0)


# ------------------------------------------------------------------ first moment, scale, shift

@st.composite
def image_cases(draw):
    fr = draw(frame_with_blob())
    return {"fr": fr, "t": draw(st.one_of(st.just(0.0), gen.dyadic(0.015625, 0.984375, 64), st.floats(0.001, 0.999))), "f": draw(st.floats(0.0, 1.0)),
            "c": draw(st.one_of(st.sampled_from([0.25, 0.5, 2.0, 8.0, 1024.0]), st.floats(1e-3, 100.0))),
            "dtype": draw(st.sampled_from(["float64", "float64", "float32"]))}


def image_body(ctx, case):
    c = C()
    fr, t, f, k = case["fr"], case["t"], case["f"], case["c"]
    dt = case["dtype"]
    img = place(fr, dtype=dt)
    sh = place(fr, fr["ky"], fr["kx"], dtype=dt)
    shift = np.array([fr["kx"], fr["ky"]], dtype=float)
    tol = 1e-9 if dt == "float64" else 2e-4
    ctx.case(case, nontrivial=bool(fr["ky"] or fr["kx"]), classes=[dt, "shift" if (fr["ky"] or fr["kx"]) else "no_shift", "t0" if t == 0 else "t_pos"])
    # own first moment at threshold 0
    i64 = img.astype(np.float64)
    yy, xx = np.mgrid[0:fr["ny"], 0:fr["nx"]]
    want = np.array([(xx * i64).sum() / i64.sum(), (yy * i64).sum() / i64.sum()])
    got0 = c.centre_of_gravity(img.copy())
    ctx.close(got0, want, tol, "centre_of_gravity == first moment (x, y)", scale=max(fr["ny"], fr["nx"]))
    # thresholded
    gt = c.centre_of_gravity(img.copy(), threshold=t)
    ctx.require(bool(np.all(np.isfinite(gt))), "centre_of_gravity with threshold %r not finite" % t)
    for name, fn in (("centre_of_gravity(t=0)", lambda a: c.centre_of_gravity(a)), ("centre_of_gravity(t=%r)" % t, lambda a: c.centre_of_gravity(a, threshold=t))):
        base = fn(img.copy())
        ctx.close(fn((img * np.asarray(k, dtype=dt)).copy()), base, tol * 10, "%s unchanged under scaling by a positive constant" % name.split("(")[0], scale=max(fr["ny"], fr["nx"]), name=name.split("(")[0] + " scale invariance")
        ctx.close(fn(sh.copy()), base + shift, tol, "%s moves with the content shift" % name.split("(")[0], scale=max(fr["ny"], fr["nx"]), name=name.split("(")[0] + " shift equivariance")
    npix = fr["ny"] * fr["nx"]
    if frac_ok(f, npix) and int(round(f * npix)) <= npix:
        base = c.brightest_pixel(img.copy(), f)
        if np.all(np.isfinite(base)):
            ctx.close(c.brightest_pixel((img * np.asarray(k, dtype=dt)).copy(), f), base, tol * 10, "brightest_pixel unchanged under scaling", scale=max(fr["ny"], fr["nx"]))
            ctx.close(c.brightest_pixel(sh.copy(), f), base + shift, tol, "brightest_pixel moves with the content shift", scale=max(fr["ny"], fr["nx"]))
        else:
            ctx.reject("brightest_pixel_selected_set_empty")


# ------------------------------------------------------------------ batch == per frame

@st.composite
def batch_cases(draw):
    ny, nx = draw(st.integers(2, 16)), draw(st.integers(2, 16))
    n = draw(st.integers(1, 5))
    seed = draw(st.integers(0, 2**32 - 1))
    rng = gen.np_rng(seed)
    stack = rng.uniform(0, 1, size=(n, ny, nx)) ** draw(st.sampled_from([1, 3, 8]))
    stack *= rng.uniform(0.2, 5.0, size=(n, 1, 1))
    return {"stack": stack, "t": draw(st.one_of(st.just(0.0), gen.dyadic(0.015625, 0.9375, 64))), "mt": draw(st.sampled_from([0.0, 0.0, 0.1])),
            "f": draw(st.floats(0.0, 1.0)), "which": draw(st.sampled_from(["cog", "cog", "bp", "quad", "corr"])), "padding": draw(st.integers(1, 3)),
            "dtype": draw(st.sampled_from(["float64", "float64", "float32"])), "layout": draw(st.sampled_from(["C", "C", "F", "moveaxis", "strided"]))}


def relayout(a, how):
    """Same values and shape, different memory layout."""
    if how == "F":
        return np.asfortranarray(a)
    if how == "moveaxis":
        return np.moveaxis(np.ascontiguousarray(np.moveaxis(a, 0, -1)), -1, 0)       # (y, x, t) cube viewed as (t, y, x)
    if how == "strided":
        big = np.zeros(tuple(2 * s for s in a.shape), dtype=a.dtype)
        big[::2, ::2, ::2] = a
        return big[::2, ::2, ::2]
    return a


def batch_body(ctx, case):
    c = C()
    stack, t, which = relayout(case["stack"].astype(case["dtype"]), case.get("layout", "C")), case["t"], case["which"]
    ctx.classes["layout_" + case.get("layout", "C")] += 1
    n, ny, nx = stack.shape
    tol = 1e-12 if case["dtype"] == "float64" else 1e-5
    differ = n >= 2 and not np.array_equal(stack[0], stack[1])
    ctx.case(case, nontrivial=bool(differ and (t > 0 or which != "cog")), classes=[which, "n%d" % n, "t0" if t == 0 else "t_pos", case["dtype"]])
    # the frames are the caller's data: the same stack is centroided again with another threshold, or by another centroider
    keep, arg = stack.copy(), stack.copy()
    c.centre_of_gravity(arg, threshold=t)
    c.centre_of_gravity(arg[0], threshold=t)
    ctx.equal(arg, keep, "centre_of_gravity(%s stack, threshold=%r) modified the stack it was given" % (case["dtype"], t), nan_ok=True)
    if which in ("cog", "quad") and n >= 2:
        # "2d or greater rank": two leading axes must give the per-frame answers too
        s4 = np.stack([stack, stack[::-1]])
        if which == "cog":
            g4 = c.centre_of_gravity(s4.copy())
            p4 = np.stack([np.stack([c.centre_of_gravity(s4[a, b].copy()) for b in range(n)], axis=1) for a in range(2)], axis=1)
            ctx.require(np.asarray(g4).shape == p4.shape, "centre_of_gravity of a rank-4 stack: shape %s, expected %s" % (np.asarray(g4).shape, p4.shape))
            ctx.close(g4, p4, tol, "centre_of_gravity(rank-4 stack) == per frame", scale=max(ny, nx), name="cog batch rank 4")
            if t != 0:
                # with a threshold: two leading axes must give what the same frames give as one stack axis
                # (judged against the 3-D call, so the open finding about 2-D vs N-D thresholding is not involved)
                kw4 = {"threshold": t}
                if case["mt"]:
                    kw4["min_threshold"] = case["mt"]
                g4t = np.asarray(c.centre_of_gravity(s4.copy(), **kw4))
                f3t = np.asarray(c.centre_of_gravity(s4.reshape((2 * n, ny, nx)).copy(), **kw4)).reshape((2, 2, n))
                ctx.require(g4t.shape == f3t.shape, "centre_of_gravity(rank-4 stack, threshold): shape %s, expected %s" % (g4t.shape, f3t.shape))
                # a frame entirely below min_threshold has no centroid (0/0) in either form
                ctx.require(bool(np.array_equal(np.isnan(g4t), np.isnan(f3t))), "centre_of_gravity(rank-4 stack, threshold): frames without a centroid differ from the rank-3 call")
                ok = ~np.isnan(f3t)
                ctx.close(g4t[ok], f3t[ok], tol, "centre_of_gravity(rank-4 stack, threshold) == the same frames as a rank-3 stack", scale=max(ny, nx), name="cog batch rank 4 threshold")
        else:
            q4 = s4[..., :2, :2]
            g4 = c.quadCell(q4.copy())
            p4 = np.stack([np.stack([c.quadCell(q4[a, b].copy()) for b in range(n)], axis=1) for a in range(2)], axis=1)
            ctx.close(g4, p4, tol, "quadCell(rank-4 stack) == per frame", scale=float(np.max(np.abs(q4))) * 4, name="quad batch rank 4")
    if which == "cog":
        if t != 0 and ctx.is_open(KF_COG):
            ctx.exclude(KF_COG)
            return
        kw = {"threshold": t}
        if case["mt"]:
            kw["min_threshold"] = case["mt"]
        got = c.centre_of_gravity(relayout(stack.copy(), case.get("layout", "C")), **kw)
        per = np.stack([c.centre_of_gravity(stack[i].copy(), **kw) for i in range(n)], axis=1)
        ctx.close(got, per, tol, "centre_of_gravity(stack, threshold) == per frame", scale=max(ny, nx), name="cog batch")
    elif which == "bp":
        f = case["f"]
        if not (frac_ok(f, ny * nx) and int(round(f * ny * nx)) <= ny * nx):
            ctx.reject("fraction_selects_fewer_than_2_pixels")
            return
        got = c.brightest_pixel(relayout(stack.copy(), case.get("layout", "C")), f)
        per = np.stack([c.brightest_pixel(stack[i].copy(), f) for i in range(n)], axis=1)
        ctx.close(got, per, tol, "brightest_pixel(stack) == per frame", scale=max(ny, nx), name="bp batch")
        if n >= 2:
            # "2d or greater rank array of imgs": (frames, sub-apertures, y, x)
            s4 = np.stack([stack, stack[::-1]])
            g4 = np.asarray(c.brightest_pixel(s4.copy(), f))
            p4 = np.stack([np.stack([c.brightest_pixel(s4[a, b].copy(), f) for b in range(n)], axis=1) for a in range(2)], axis=1)
            ctx.require(g4.shape == p4.shape, "brightest_pixel of a rank-4 stack: shape %s, expected %s" % (g4.shape, p4.shape))
            ctx.close(g4, p4, tol, "brightest_pixel(rank-4 stack) == per frame", scale=max(ny, nx), name="bp batch rank 4")
    elif which == "quad":
        q = stack[:, :2, :2]
        got = c.quadCell(q.copy())
        per = np.stack([c.quadCell(q[i].copy()) for i in range(n)], axis=1)
        ctx.close(got, per, tol, "quadCell(stack) == per frame", scale=float(np.max(np.abs(q))) * 4, name="quad batch")
    else:
        ref = stack[0].copy()
        p = case["padding"]
        got = c.correlation_centroid(relayout(stack.copy(), case.get("layout", "C")), ref.copy(), threshold=t, padding=p)
        per1 = np.concatenate([c.correlation_centroid(stack[i:i + 1].copy(), ref.copy(), threshold=t, padding=p) for i in range(n)], axis=1)
        per2 = np.concatenate([c.correlation_centroid(stack[i].copy(), ref.copy(), threshold=t, padding=p) for i in range(n)], axis=1)
        ctx.close(got, per1, max(tol, 1e-9), "correlation_centroid(stack) == per (1,y,x) frame", scale=max(ny, nx) * p, name="corr batch 3d")
        ctx.close(got, per2, max(tol, 1e-9), "correlation_centroid(stack) == per (y,x) frame", scale=max(ny, nx) * p, name="corr batch 2d")


# ------------------------------------------------------------------ correlation displacement

@st.composite
def corr_cases(draw):
    ny, nx = draw(st.integers(4, 24)), draw(st.integers(4, 24))
    bh = draw(st.integers(1, max(1, (ny - 1) // 2)))
    bw = draw(st.integers(1, max(1, (nx - 1) // 2)))
    seed = draw(st.integers(0, 2**32 - 1))
    rng = gen.np_rng(seed)
    blob = rng.uniform(0.1, 1.0, size=(bh, bw))
    p = draw(st.integers(1, 4))
    # lags reachable without wrap: autocorrelation support +-(b-1) shifted by s must stay inside [-(N//2), N-N//2-1] (padding 1)
    # or inside the padded window (padding >= 2, always true)
    oy, ox = draw(st.integers(0, ny - bh)), draw(st.integers(0, nx - bw))
    def srange(o, b, N):
        lo, hi = -o, N - b - o                       # content stays inside the frame
        if p == 1:
            lo = max(lo, -(N // 2) + (b - 1))
            hi = min(hi, (N - N // 2 - 1) - (b - 1))
        return lo, hi
    ylo, yhi = srange(oy, bh, ny)
    xlo, xhi = srange(ox, bw, nx)
    sy = draw(st.integers(min(ylo, 0), max(yhi, 0))) if ylo <= yhi else 0
    sx = draw(st.integers(min(xlo, 0), max(xhi, 0))) if xlo <= xhi else 0
    sy = min(max(sy, ylo), yhi) if ylo <= yhi else 0
    sx = min(max(sx, xlo), xhi) if xlo <= xhi else 0
    return {"ny": ny, "nx": nx, "blob": blob, "oy": oy, "ox": ox, "sy": sy, "sx": sx, "padding": p,
            "feasible": bool(ylo <= yhi and xlo <= xhi), "as3d": draw(st.booleans())}


def corr_body(ctx, case):
    c = C()
    if not case["feasible"]:
        ctx.reject("no_wrap_free_shift")
        return
    ny, nx, b, p = case["ny"], case["nx"], case["blob"], case["padding"]
    ref = np.zeros((ny, nx))
    ref[case["oy"]:case["oy"] + b.shape[0], case["ox"]:case["ox"] + b.shape[1]] = b
    img = np.zeros((ny, nx))
    img[case["oy"] + case["sy"]:case["oy"] + case["sy"] + b.shape[0], case["ox"] + case["sx"]:case["ox"] + case["sx"] + b.shape[1]] = b
    ctx.case(case, nontrivial=bool(p >= 2 or case["sx"] or case["sy"]), classes=["pad%d" % p, "ny_odd" if ny % 2 else "ny_even", "nx_odd" if nx % 2 else "nx_even", "shift" if (case["sx"] or case["sy"]) else "no_shift"])
    def run(a):
        a = a.copy()
        if case["as3d"]:
            a = a[None]
        return c.correlation_centroid(a, ref.copy(), padding=p)[:, 0]
    auto = run(ref)
    ctx.close(auto, np.array([nx // 2, ny // 2], dtype=float), 1e-9, "correlation centroid of the reference with itself == array centre (N//2) for padding %d, shape (%d,%d)" % (p, ny, nx), scale=1.0, name="autocorrelation centre")
    got = run(img)
    ctx.close(got - auto, np.array([case["sx"], case["sy"]], dtype=float), 1e-9, "correlation centroid displaced by the image displacement", scale=1.0, name="correlation displacement")
    # a live reference: one array that the caller refreshes in place between calls (running reference of an extended-scene sensor)
    live = ref.copy()
    a3 = (lambda a: a[None] if case["as3d"] else a)
    first = c.correlation_centroid(a3(img.copy()), live, padding=p)[:, 0]
    ctx.close(first, got, 1e-12, "correlation centroid with the reference passed as a reusable array == with a fresh copy", scale=1.0)
    live[...] = img                                  # the reference now IS the image
    second = c.correlation_centroid(a3(img.copy()), live, padding=p)[:, 0]
    ctx.close(second, auto, 1e-9, "after the reference array was refreshed in place with the current image, the correlation centroid of that image is the array centre again", scale=1.0, name="refreshed reference")


# ------------------------------------------------------------------ quad cell mirror

@st.composite
def quad_cases(draw):
    lead = tuple(draw(st.sampled_from([(), (), (3,), (2, 2)])))
    return {"img": draw(gen.float_array(lead + (2, 2), kind=draw(st.sampled_from(["dense", "dyadic"])), lo=0.0, hi=4.0))}


def quad_body(ctx, case):
    c = C()
    img = case["img"]
    ctx.case(case, nontrivial=bool(img.ndim > 2 or img[..., 0, 0].ravel()[0] != img[..., 0, 1].ravel()[0]), classes=["rank%d" % img.ndim])
    q = c.quadCell(img.copy())
    ql = c.quadCell(img[..., :, ::-1].copy())
    qu = c.quadCell(img[..., ::-1, :].copy())
    ctx.equal(ql[0], -q[0], "quadCell x-signal changes sign under left-right mirroring")
    ctx.equal(ql[1], q[1], "quadCell y-signal unchanged under left-right mirroring")
    ctx.equal(qu[1], -q[1], "quadCell y-signal changes sign under up-down mirroring")
    ctx.equal(qu[0], q[0], "quadCell x-signal unchanged under up-down mirroring")
    # a brighter right column gives a positive x signal, a brighter bottom row a positive y signal (x = last axis, y = first)
    a = np.array([[0.0, 1.0], [0.0, 1.0]])
    ctx.require(c.quadCell(a)[0] > 0 and c.quadCell(a)[1] == 0, "quadCell: x signal sign / axis")
    ctx.require(c.quadCell(a.T.copy())[1] > 0 and c.quadCell(a.T.copy())[0] == 0, "quadCell: y signal sign / axis")


# ------------------------------------------------------------------ the same counts in another integer type

@st.composite
def counts_cases(draw):
    ny, nx = draw(st.integers(2, 14)), draw(st.integers(2, 14))
    n = draw(st.integers(0, 3))
    if draw(st.integers(0, 11)) == 0:
        # full detector frames: coordinates beyond 255 (and beyond what narrow index types hold)
        ny, nx = draw(st.sampled_from([(240, 320), (300, 300), (288, 384), (2, 511), (257, 3), (360, 480), (520, 130)]))
        n = draw(st.integers(0, 2))
        seed = draw(st.integers(0, 2**32 - 1))
        # saturated spots towards the far corner, in the narrow types cameras deliver
        return {"ny": ny, "nx": nx, "n": n, "seed": seed, "peak": draw(st.sampled_from([120, 250])), "bg": draw(st.sampled_from([0, 1])), "far": draw(st.booleans()),
                "dtype": draw(st.sampled_from(["uint8", "uint8", "int8", "uint16", "int16"])),
                "t": draw(st.sampled_from([0.0, 0.0, 0.25])), "f": draw(st.floats(0.05, 0.9)), "padding": 1}
    seed = draw(st.integers(0, 2**32 - 1))
    return {"ny": ny, "nx": nx, "n": n, "seed": seed, "peak": draw(st.sampled_from([12, 80, 250])), "bg": draw(st.sampled_from([0, 1, 5])),
            "dtype": draw(st.sampled_from(["uint8", "uint16", "uint32", "uint64", "int8", "int16", "int32", "int64"])),
            "t": draw(st.sampled_from([0.0, 0.25, 0.5])), "f": draw(st.floats(0.05, 0.9)), "padding": draw(st.integers(1, 2))}


def counts_body(ctx, case):
    """Detector frames are unsigned integers.  The same counts handed over as uint8 / uint16 / ... / int64 must give what they
    give as float64 (every value is exactly representable in all of them): a centroid cannot depend on the storage type."""
    c = C()
    rng = gen.np_rng(case["seed"])
    ny, nx, n = case["ny"], case["nx"], case["n"]
    shape = (ny, nx) if n == 0 else (n, ny, nx)
    img = rng.integers(0, case["bg"] + 1, size=shape)
    yy, xx = np.mgrid[0:ny, 0:nx]
    for fr in (img.reshape((-1, ny, nx))):
        cy, cx = rng.uniform(0, ny - 1), rng.uniform(0, nx - 1)
        if case.get("far"):
            cy, cx = rng.uniform(0.85 * (ny - 1), ny - 1), rng.uniform(0.85 * (nx - 1), nx - 1)
        fr += np.round(case["peak"] * np.exp(-((yy - cy) ** 2 + (xx - cx) ** 2) / 3.0)).astype(fr.dtype)
    img = np.minimum(img, 127 if case["dtype"] == "int8" else 255)
    ref = img.astype(np.float64)
    typed = img.astype(case["dtype"])
    ctx.require(bool(np.array_equal(typed.astype(np.float64), ref)), "harness: counts not representable")
    ctx.case(case, nontrivial=True, classes=[case["dtype"], "single" if n == 0 else "stack"] + (["detector_size"] if max(ny, nx) > 255 else []))
    tol = 1e-12
    t, f = case["t"], case["f"]
    # (typed stack against the float64 stack of the same rank: the open finding about stacks vs frames is not involved)
    for tt in ((t,) if n == 0 else (t, 1)):                  # a stack also with the integer threshold 1 = brightest pixel(s) only
        ctx.close(c.centre_of_gravity(typed.copy(), threshold=tt), c.centre_of_gravity(ref.copy(), threshold=tt), tol, "centre_of_gravity(%s counts) == centre_of_gravity(the same counts as float64)" % case["dtype"], scale=max(ny, nx), name="cog storage type")
    if frac_ok(f, ny * nx):
        want = c.brightest_pixel(ref.copy(), f)
        if np.all(np.isfinite(want)):
            ctx.close(c.brightest_pixel(typed.copy(), f), want, tol, "brightest_pixel(%s counts) == brightest_pixel(the same counts as float64)" % case["dtype"], scale=max(ny, nx), name="bp storage type")
    q, qr = typed[..., :2, :2], ref[..., :2, :2]
    for nm, sl in (("", (Ellipsis,)), (" mirrored left-right", (Ellipsis, slice(None), slice(None, None, -1))), (" mirrored up-down", (Ellipsis, slice(None, None, -1), slice(None)))):
        ctx.close(np.asarray(c.quadCell(q[sl].copy()), dtype=np.float64), c.quadCell(qr[sl].copy()), tol, "quadCell(%s counts%s) == quadCell(the same counts as float64)" % (case["dtype"], nm), scale=4.0 * 255, name="quad storage type")
    p = case["padding"]
    r0_ = ref if n == 0 else ref[0]
    gc = np.asarray(c.correlation_centroid(typed.copy(), typed.reshape((-1, ny, nx))[0].copy(), threshold=t, padding=p))
    wc = np.asarray(c.correlation_centroid(ref.copy(), r0_.copy(), threshold=t, padding=p))
    # a frame without contrast has no correlation peak (0/0) whatever its storage type
    ctx.require(bool(np.array_equal(np.isnan(gc), np.isnan(wc))), "correlation_centroid(%s counts): frames without a centroid differ from the float64 call" % case["dtype"])
    okc = ~np.isnan(wc)
    ctx.close(gc[okc], wc[okc], 1e-9, "correlation_centroid(%s counts) == correlation_centroid(the same counts as float64)" % case["dtype"], scale=max(ny, nx) * p, name="corr storage type")


LAWS = [
    given_law("single_pixel", pixel_cases(), pixel_body, {"quick": 600, "thorough": 10000}, shards={"quick": 3, "thorough": 16}),
    given_law("moment_scale_shift", image_cases(), image_body, {"quick": 800, "thorough": 12500}, shards={"quick": 3, "thorough": 16}),
    given_law("batch", batch_cases(), batch_body, {"quick": 600, "thorough": 10000}, shards={"quick": 3, "thorough": 16}),
    given_law("correlation", corr_cases(), corr_body, {"quick": 500, "thorough": 7500}, shards={"quick": 3, "thorough": 16}),
    given_law("quadcell", quad_cases(), quad_body, {"quick": 300, "thorough": 3750}, shards={"quick": 3, "thorough": 16}),
    given_law("integer_counts", counts_cases(), counts_body, {"quick": 300, "thorough": 3750}, shards={"quick": 3, "thorough": 16}),
]
