"""C03 - covariance construction is independent of process count and scheduling."""
import gc
import itertools
import multiprocessing
import time
import types

import numpy as np
from hypothesis import strategies as st
from hypothesis.stateful import RuleBasedStateMachine, initialize, rule

from ..core import Failure, Law, Violation, machine_law, plain_law
from .. import gen
from ..fakepool import FakePool
from . import c01

RULE = ("histories over one CovarianceMatrix object (2-4 WFS on <=3x3 masks, 1-3 layers => 3-10 pair tasks per layer): "
        "set the worker count (1..6), rebuild under (a) a schedule-owning fake Pool whose execution and completion orders "
        "are drawn permutations, (b) a real fork Pool with per-task delays injected through the module-level worker "
        "function, (c) the single-process path; touch the object between builds (read attributes, make a reconstructor). "
        "Invariant after every build: bit-identical (int32 view) to a single-process build on a fresh object; inputs "
        "unchanged. Exhaustive law: every execution x completion order of the 3 tasks of a 2-WFS system and every "
        "execution order of the 6 tasks of a 3-WFS system. Non-trivial history = >=2 builds, a worker-count change and "
        "a non-identity schedule or a delayed real pool. Distinct = canonical JSON of the history."
        " Also: the returned matrix is edited in place by the caller after every other build; builds under the 'spawn' and 'forkserver' start methods in a fresh interpreter (2-5 workers, rebuild) must be bit-identical too."
        " Law realistic_size: 4-5 sensors of 14x14 / 16x16 sub-apertures through real pools of 2-5 workers.")
ASSUMPTIONS = ["the fake Pool models multiprocessing.Pool's documented contract (ordered map/imap, completion-ordered imap_unordered/callbacks, pickled arguments and results); real OS interleavings are sampled, not enumerated",
               "real pools are owned by the harness so that it can shut them down deterministically; with the fake pool the build is required to close or terminate every pool it creates (no worker processes carried over between builds)"]


def SC():
    from aotools.turbulence import slopecovariance
    return slopecovariance


def bits(a):
    return np.ascontiguousarray(a).view(np.int32)


def snapshot(cfg):
    return [np.array(m).copy() for m in cfg["pupil_masks"]], [list(p) for p in cfg["gs_positions"]], list(cfg["layer_r0s"])


def reap():
    n = 0
    gc.collect()
    for p in multiprocessing.active_children():
        p.terminate()
        p.join(2)
        n += 1
    return n


class Model:
    """Executes operations on one CovarianceMatrix object and checks the invariant after every build."""

    def __init__(self, ctx, cfg):
        self.ctx, self.cfg = ctx, cfg
        sc = SC()
        if cfg.get("surplus"):
            k = cfg["surplus"]
            cfg = dict(cfg, gs_positions=[list(p) for p in cfg["gs_positions"]] + [[77.0, -31.0]] * k, gs_altitudes=list(cfg["gs_altitudes"]) + [15e3] * k,
                       wfs_wavelengths=list(cfg["wfs_wavelengths"]) + [1.0e-6] * k, subap_diameters=list(cfg["subap_diameters"]) + [0.123] * k,
                       layer_altitudes=list(cfg["layer_altitudes"]) + [3333.0] * k, layer_r0s=list(cfg["layer_r0s"]) + [0.07] * k, layer_L0s=list(cfg["layer_L0s"]) + [11.0] * k, surplus=0)
            self.cfg = cfg
        self.args = dict(masks=[np.array(m) for m in cfg["pupil_masks"]], subd=list(cfg["subap_diameters"]), alts=list(cfg["gs_altitudes"]),
                         pos=[list(p) for p in cfg["gs_positions"]], wl=list(cfg["wfs_wavelengths"]), lalt=list(cfg["layer_altitudes"]),
                         r0=list(cfg["layer_r0s"]), L0=list(cfg["layer_L0s"]))
        if cfg.get("arg_types") == "arrays":
            for k in ("subd", "alts", "pos", "wl", "lalt", "r0", "L0"):
                self.args[k] = np.array(self.args[k], dtype=float)
        import copy
        self.snap = copy.deepcopy(self.args)
        ref, _ = c01.build(cfg)                       # fresh object, single process
        self.ref = ref.copy()
        a = self.args
        self.obj = sc.CovarianceMatrix(cfg["n_wfs"], a["masks"], cfg["telescope_diameter"], a["subd"], a["alts"], a["pos"], a["wl"],
                                       cfg["n_layers"], a["lalt"], a["r0"], a["L0"], 1)
        self.builds = 0
        self.leaked = 0
        self.flags = set()

    def check_inputs(self):
        a, s = self.args, self.snap
        for m, m0 in zip(a["masks"], s["masks"]):
            self.ctx.equal(m, m0, "a pupil mask was modified by a build")
        for k in ("subd", "alts", "pos", "wl", "lalt", "r0", "L0"):
            self.ctx.require(np.array_equal(np.asarray(a[k], dtype=float), np.asarray(s[k], dtype=float)), "input argument %r was modified by a build" % k)

    def apply(self, op):
        sc = SC()
        kind = op["op"]
        if kind == "threads":
            self.obj.threads = op["k"]
            self.flags.add("toggle")
            return
        if kind == "edit":
            # change a parameter of the object; from now on the reference is a fresh object with the current parameters
            cur = dict(self.cfg)
            c01.apply_edit(cur, self.obj, op["what"], op.get("step", 0))
            if op["what"] == "threads":
                self.flags.add("toggle")
            self.cfg = cur
            for k_, name in (("subd", "subap_diameters"), ("alts", "gs_altitudes"), ("pos", "gs_positions"), ("wl", "wfs_wavelengths"), ("lalt", "layer_altitudes"), ("r0", "layer_r0s"), ("L0", "layer_L0s")):
                self.args[k_] = getattr(self.obj, name)
            import copy
            self.snap = copy.deepcopy(self.args)
            ref, _ = c01.build(dict(cur, arg_types="lists"))
            self.ref = ref.copy()
            self.flags.add("edited")
            return
        if kind == "touch":
            _ = (self.obj.n_subaps.sum(), self.obj.total_subaps, getattr(self.obj, "covariance_matrix", None) is None)
            if hasattr(self.obj, "covariance_matrix") and op.get("recon"):
                r = self.obj.make_tomographic_reconstructor(svd_conditioning=0.01)
                r2 = self.obj.make_tomographic_reconstructor(svd_conditioning=0.01)
                self.ctx.equal(r2, r, "reconstructor not repeatable")
            return
        assert kind == "build"
        regime = op["regime"] if self.obj.threads != 1 else "single"
        if regime == "single" and self.obj.threads != 1:
            regime = "real"                               # threads > 1 without a fake pool means a real pool
        real_mp, real_wc = sc.multiprocessing, sc.wfs_covariance
        log = []
        pools = []
        try:
            if regime == "fake":
                sched = op.get("schedule") or {"style": "identity", "seed": 0}
                made = []

                def fake_pool(processes=None, *a, **k):
                    made.append(FakePool(processes, schedule=sched, log=log))
                    return made[-1]
                sc.multiprocessing = types.SimpleNamespace(Pool=fake_pool)
                if sched.get("style") != "identity":
                    self.flags.add("nonidentity")
            elif regime == "real":
                delays = op.get("delays") or [0]
                fork = multiprocessing.get_context("fork")

                def owned_pool(processes=None, *a, **k):
                    # a real fork pool, but owned by the harness so that it can be shut down deterministically
                    # (the library never closes its pools)
                    pl = fork.Pool(processes, *a, **k)
                    pools.append(pl)
                    return pl
                sc.multiprocessing = types.SimpleNamespace(Pool=owned_pool)

                def slow(n1, n2, p1, p2, d1, d2, r0, L0, _f=real_wc, _d=delays, **kw):
                    key = int(abs(float(np.sum(p1)) * 7919 + float(np.sum(p2)) * 104729 + n1 * 31 + n2) * 1000) % len(_d)
                    time.sleep(_d[key] / 1000.0)
                    return _f(n1, n2, p1, p2, d1, d2, r0, L0, **kw)
                sc.wfs_covariance = slow
                if max(delays) > 0 and self.obj.threads >= 2:
                    self.flags.add("delayed_real")
            ret = self.obj.make_covariance_matrix()
            got = np.array(ret)
            if self.builds % 2 == 0 and isinstance(ret, np.ndarray) and ret.flags.writeable:
                # the caller owns what it was handed (adds noise to the diagonal, converts units in place ...): nothing of
                # that may come back from the next build
                ret *= np.float32(-2.5)
                ret += np.float32(1.0)
                self.flags.add("returned_matrix_edited_in_place")
        finally:
            sc.multiprocessing, sc.wfs_covariance = real_mp, real_wc
            for pl in pools:
                pl.terminate()
                pl.join()
                self.leaked += 1
        self.builds += 1
        self.ctx.classes["build_" + regime] += 1
        if regime == "fake":
            # worker processes, their pipes and helper threads are state too: a finished build must not leave them behind
            # for the next one (multiprocessing documents that a Pool must be closed or terminated by its owner)
            self.ctx.require(all(pl.closed for pl in made), "build %d (threads=%r) returned with its worker pool still open: %d pool(s) neither closed nor terminated - worker processes and pipes are carried over to later builds" % (
                self.builds, self.obj.threads, sum(1 for pl in made if not pl.closed)))
        self.ctx.require(got.shape == self.ref.shape and got.dtype == self.ref.dtype, "build %d (%s, threads=%r): shape/dtype %s %s" % (self.builds, regime, self.obj.threads, got.shape, got.dtype))
        if not np.array_equal(bits(got), bits(self.ref)):
            nd = int(np.sum(bits(got) != bits(self.ref)))
            raise Violation("build %d (%s, threads=%r, schedule=%r) is not bit-identical to the single-process build on a fresh object: %d of %d entries differ (max abs diff %.3g)" % (
                self.builds, regime, self.obj.threads, log[:2] if log else None, nd, got.size, float(np.nanmax(np.abs(got.astype(float) - self.ref.astype(float))))))
        self.check_inputs()

    def nontrivial(self):
        return self.builds >= 2 and "toggle" in self.flags and ("nonidentity" in self.flags or "delayed_real" in self.flags)


small_geometry = c01.geometry(max_wfs=4, max_n=3, max_layers=3).filter(lambda c: c["n_wfs"] >= 2)

schedules = st.one_of(
    st.just({"style": "identity", "seed": 0}), st.just({"style": "reversed", "seed": 0}),
    st.builds(lambda s: {"style": "random", "seed": s}, st.integers(0, 10**6)))


def make_machine(real_fraction):
    def factory(ctx, box):
        class M(RuleBasedStateMachine):
            def __init__(self):
                super().__init__()
                self.history = []
                box["history"] = self.history
                self.model = None

            @initialize(cfg=small_geometry)
            def init(self, cfg):
                self.history.append({"op": "init", "cfg": cfg})
                self.model = Model(ctx, cfg)

            def _do(self, op):
                self.history.append(op)
                self.model.apply(op)

            @rule(k=st.integers(1, 6))
            def set_threads(self, k):
                self._do({"op": "threads", "k": k})

            @rule(schedule=schedules)
            def build_fake(self, schedule):
                self._do({"op": "build", "regime": "fake", "schedule": schedule})

            @rule(delays=st.lists(st.integers(0, 25), min_size=3, max_size=6), go=st.integers(0, 99))
            def build_real(self, delays, go):
                if go < real_fraction:
                    self._do({"op": "build", "regime": "real", "delays": delays})
                else:
                    self._do({"op": "build", "regime": "single" if go % 2 else "fake", "schedule": {"style": "random", "seed": go}})

            @rule(k=st.integers(2, 6), schedule=schedules)
            def toggle_and_build(self, k, schedule):
                self._do({"op": "threads", "k": k})
                self._do({"op": "build", "regime": "fake" if real_fraction == 0 else "real", "schedule": schedule, "delays": [0, 7, 19, 3]})

            @rule(what=st.sampled_from(["r0", "L0", "gs", "gs_alt", "wavelength", "layers", "subap"]), step=st.integers(0, 3))
            def edit(self, what, step):
                self._do({"op": "edit", "what": what, "step": step})

            @rule(recon=st.booleans())
            def touch(self, recon):
                self._do({"op": "touch", "recon": recon})

            def teardown(self):
                if self.model is not None:
                    reap()
                    ctx.case(self.history, nontrivial=self.model.nontrivial(), classes=["builds%d" % min(self.model.builds, 4)] + sorted(self.model.flags))
                    if self.model.leaked:
                        ctx.classes["pools_left_open_by_library_closed_by_harness"] += self.model.leaked
        return M
    return factory


def replay_history(ctx, history):
    model = None
    try:
        for op in history:
            if op["op"] == "init":
                model = Model(ctx, op["cfg"])
            else:
                model.apply(op)
    finally:
        reap()


# ------------------------------------------------------------------ exhaustive task orders under the fake pool

BASE = {"telescope_diameter": 4.2, "n_layers": 2, "layer_altitudes": [0.0, 9000.0], "layer_r0s": [0.15, 0.4], "layer_L0s": [25.0, 60.0]}


def order_cases(tier):
    m2 = [np.array([[1, 0], [1, 1]]), np.array([[1, 1], [0, 1]])]
    c2 = dict(BASE, n_wfs=2, pupil_masks=m2, mask_kinds=["asym", "asym"], subap_diameters=[2.1, 2.1], gs_altitudes=[0, 90e3], gs_positions=[[0.0, 0.0], [20.0, -10.0]], wfs_wavelengths=[500e-9, 589e-9])
    c3 = dict(BASE, n_wfs=3, pupil_masks=m2 + [np.array([[0, 1], [1, 1]])], mask_kinds=["asym"] * 3, subap_diameters=[2.1] * 3, gs_altitudes=[0, 0, 90e3], gs_positions=[[0.0, 0.0], [20.0, -10.0], [-15.0, 30.0]], wfs_wavelengths=[500e-9, 589e-9, 1.65e-6])
    cases = []
    for ex in itertools.permutations(range(3)):
        for dn in itertools.permutations(range(3)):
            cases.append({"cfg": c2, "exec": list(ex), "done": list(dn), "threads": 3})
    perms6 = list(itertools.permutations(range(6)))
    step = 6 if tier == "quick" else 1
    for ex in perms6[::step]:
        cases.append({"cfg": c3, "exec": list(ex), "done": list(ex)[::-1], "threads": 4})
    return cases


def order_body(ctx, case):
    history = [{"op": "init", "cfg": case["cfg"]}, {"op": "threads", "k": case["threads"]},
               {"op": "build", "regime": "fake", "schedule": {"style": "explicit", "explicit_exec": case["exec"], "explicit_done": case["done"]}},
               {"op": "threads", "k": 1}, {"op": "build", "regime": "single"},
               {"op": "threads", "k": 2}, {"op": "build", "regime": "fake", "schedule": {"style": "explicit", "explicit_exec": case["exec"][::-1], "explicit_done": case["done"]}}]
    ctx.case({"exec": case["exec"], "done": case["done"], "n_wfs": case["cfg"]["n_wfs"]}, nontrivial=case["exec"] != sorted(case["exec"]) or case["done"] != sorted(case["done"]))
    replay_history(ctx, history)


# ------------------------------------------------------------------ the other process start methods

def start_cases(tier):
    m2 = [[[1, 0], [1, 1]], [[1, 1], [0, 1]]]
    c2 = dict(BASE, n_wfs=2, pupil_masks=m2, subap_diameters=[2.1, 2.1], gs_altitudes=[0, 90e3], gs_positions=[[0.0, 0.0], [20.0, -10.0]], wfs_wavelengths=[500e-9, 589e-9])
    c3 = dict(BASE, n_wfs=3, pupil_masks=m2 + [[[0, 1, 1], [1, 1, 1], [1, 1, 0]]], subap_diameters=[2.1, 2.1, 1.4], gs_altitudes=[0, 0, 90e3], gs_positions=[[0.0, 0.0], [20.0, -10.0], [-15.0, 30.0]], wfs_wavelengths=[500e-9, 589e-9, 1.65e-6])
    return [{"method": m, "cfg": c, "threads": t} for m in ("spawn", "forkserver") for c, t in ((c2, [2, 3]), (c3, [2, 5]))]


def start_body(ctx, case):
    """'Any number of worker processes' under the start methods other than fork (workers that import the library afresh and
    get their task through pickle): the same bit-identical matrix, also on a rebuild.  Runs in a fresh interpreter."""
    import json, os, subprocess, sys
    from ..core import VERIF_DIR, REPO_DIR, HarnessError
    ctx.case({"method": case["method"], "n_wfs": case["cfg"]["n_wfs"], "threads": case["threads"]}, nontrivial=True, classes=[case["method"]])
    env = dict(os.environ, PYTHONPATH=VERIF_DIR, VERIF_REPO=REPO_DIR, NUMBA_NUM_THREADS="1", OMP_NUM_THREADS="1")
    p = subprocess.run([sys.executable, "-m", "vt.startmethod", case["method"]], input=json.dumps({"cfg": case["cfg"], "threads": case["threads"]}), capture_output=True, text=True, env=env, cwd=VERIF_DIR, timeout=900)
    if p.returncode != 0:
        raise HarnessError("start-method runner failed: %s" % p.stderr[-500:])
    for r in json.loads(p.stdout):
        if "error" in r:
            if not r["in_library"]:
                raise HarnessError("start-method runner: %s" % r["error"])
            ctx.require(False, "building with %d worker processes under the %r start method raised %s" % (r["threads"], case["method"], r["error"]))
        ctx.require(r["identical"], "build with %d worker processes under the %r start method is not bit-identical to the single-process build (%d entries differ)" % (r["threads"], case["method"], r["differing"]))
        ctx.require(r["rebuild_identical"], "rebuild with %d worker processes under the %r start method is not bit-identical to the single-process build" % (r["threads"], case["method"]))


# ------------------------------------------------------------------ a system of realistic size

def big_cases(tier):
    return [{"n_wfs": 4, "n": 16, "threads": t} for t in (2, 3)] + [{"n_wfs": 5, "n": 14, "threads": 2}]


def big_body(ctx, case):
    """Sensors of 14 x 14 and 16 x 16 sub-apertures (blocks of more than a MiB, more sensor pairs than four times the worker
    count) through real worker processes: bit-identical to the single-process matrix, also on a rebuild with another count."""
    sc = SC()
    from aotools.functions.pupil import circle
    n, k = case["n"], case["n_wfs"]
    ctx.case(case, nontrivial=True, classes=["wfs%d_n%d_threads%d" % (k, n, case["threads"])])
    m = circle(n / 2.0, n).astype(int)
    pos = [[0.0, 0.0], [20.0, -10.0], [-15.0, 30.0], [40.0, 5.0], [-33.0, -21.0]][:k]
    alts = [0, 0, 90e3, 90e3, 0][:k]

    def mk(t):
        return sc.CovarianceMatrix(k, [m.copy() for _ in range(k)], 8.0, [8.0 / n] * k, alts, pos, [500e-9, 589e-9, 589e-9, 1.65e-6, 500e-9][:k], 2, [0.0, 9000.0], [0.15, 0.4], [25.0, 60.0], t)
    ref = np.array(mk(1).make_covariance_matrix())
    o = mk(case["threads"])
    try:
        got = np.array(o.make_covariance_matrix())
        o.threads = case["threads"] + 2
        again = np.array(o.make_covariance_matrix())
    finally:
        reap()
    for name, g in (("build", got), ("rebuild with %d workers" % (case["threads"] + 2), again)):
        ctx.require(g.shape == ref.shape and bool(np.array_equal(bits(g), bits(ref))), "%s of a %d-sensor %dx%d system with %d worker processes is not bit-identical to the single-process build: %d of %d entries differ" % (
            name, k, n, n, case["threads"], int(np.sum(bits(g) != bits(ref))) if g.shape == ref.shape else -1, ref.size))


def self_test():
    # the fake pool returns what the real pool returns for an order-insensitive function
    fp = FakePool(3, schedule={"style": "random", "seed": 5})
    assert fp.map(abs, [-3, 2, -1, 0]) == [3, 2, 1, 0]
    assert sorted(fp.imap_unordered(abs, [-3, 2, -1, 0])) == [0, 1, 2, 3]
    assert list(fp.imap(abs, [-3, 2, -1])) == [3, 2, 1]
    assert fp.starmap(pow, [(2, 3), (3, 2)]) == [8, 9]


LAWS = [
    machine_law("history_fake", make_machine(0), replay_history, {"quick": 50, "thorough": 300}, {"quick": 9, "thorough": 14}, shards={"quick": 4, "thorough": 16}),
    machine_law("history_real", make_machine(60), replay_history, {"quick": 8, "thorough": 60}, {"quick": 7, "thorough": 10}, shards={"quick": 4, "thorough": 8}),
    plain_law("all_task_orders", order_cases, order_body, shards={"quick": 4, "thorough": 16}),
    plain_law("start_methods", start_cases, start_body, shards={"quick": 4, "thorough": 4}),
    plain_law("realistic_size", big_cases, big_body, shards={"quick": 3, "thorough": 3}),
]
