"""C14 - pupil masks and sub-aperture selection are exact geometric indicators."""
import itertools
import math
from fractions import Fraction

import numpy as np
from hypothesis import strategies as st

from ..core import Violation, given_law, plain_law, Law
from .. import gen

RULE = ("circle: (size, radius, centre, origin) drawn on the dyadic 1/8 grid (exact arithmetic, Fraction oracle, "
        "bit-for-bit) with Pythagorean offsets forced, and as general floats (pixels within 1e-9 of the boundary not "
        "judged); small grid size<=6 enumerated exhaustively. Non-trivial = some pixel centre exactly on the boundary "
        "or centre != 0 or origin=corner. Selection: masks (circles, annuli, random 0/1, fractional) x subaps x "
        "thresholds drawn from attained cell means; non-trivial = threshold equals an attained mean or non-divisible "
        "size. Scatter: random masks/data/dtypes; non-trivial = mask with both 0 and 1 and >=2 frames. Distinct = "
        "distinct canonical JSON of the case."
        " Also: centre as tuple, list or one reused float64 array (must stay unchanged)."
        " Thresholds above every cell mean (empty selection must be a (0, 2) array)."
        " All-valid masks; the map must not share memory with the slope array.")
ASSUMPTIONS = ["pixel (row i, col j) has centre (j+1/2, i+1/2); circle_centre = (x, y) = (column, row) offset",
               "non-divisible mask sizes: a cell's bounds may be rounded either way (any of the <=16 candidate "
               "rectangles is accepted), only divisible sizes are judged exactly"]


def aot():
    import aotools
    from aotools.functions import pupil
    from aotools.wfs import wfslib
    return pupil, wfslib


# ------------------------------------------------------------------ circle oracle

def circle_oracle_exact(r, size, cx, cy, origin):
    """Fraction arithmetic. Returns (mask, on_boundary_count)."""
    r, cx, cy = Fraction(r), Fraction(cx), Fraction(cy)
    o = Fraction(size, 2) if origin == "middle" else Fraction(0)
    out = np.zeros((size, size))
    nb = 0
    for i in range(size):
        dy = Fraction(2 * i + 1, 2) - o - cy
        for j in range(size):
            dx = Fraction(2 * j + 1, 2) - o - cx
            d2 = dx * dx + dy * dy
            if d2 <= r * r:
                out[i, j] = 1
            if d2 == r * r:
                nb += 1
    return out, nb


def circle_exact_body(ctx, case):
    pupil, _ = aot()
    r, size, cx, cy, origin = case["r"], case["size"], case["cx"], case["cy"], case["origin"]
    want, nb = circle_oracle_exact(r, size, cx, cy, origin)
    # the centre as a tuple, a list, or ONE float64 array that the caller keeps and passes to every call
    form = case.get("centre_as", "tuple")
    carr = np.array([cx, cy], dtype=np.float64)
    centre = (cx, cy) if form == "tuple" else [cx, cy] if form == "list" else carr
    ctx.classes["centre_as_" + form] += 1
    got = pupil.circle(r, size, centre, origin)
    ctx.require(carr[0] == cx and carr[1] == cy, "circle modified the centre array it was given: %r -> %r" % ((cx, cy), carr.tolist()))
    if float(r).is_integer() and 0 <= r <= 120:
        # the same radius as a NumPy integer scalar of a narrow type (a parameter read from a uint8 / int16 array)
        import warnings as _w
        for tname in ("uint8", "int8", "int16", "uint16"):
            with _w.catch_warnings():
                _w.simplefilter("ignore")
                gi = pupil.circle(getattr(np, tname)(int(r)), size, (cx, cy), origin)
            ctx.equal(gi, want, "circle(numpy.%s(%d), %d, (%r, %r), %r) vs exact indicator" % (tname, int(r), size, cx, cy, origin))
        ctx.classes["integer_radius_in_narrow_types"] += 1
    ctx.case(case, nontrivial=(nb > 0 or cx != 0 or cy != 0 or origin == "corner"),
             classes=["boundary_pixel" if nb else "no_boundary_pixel", origin,
                      "centred" if (cx == 0 and cy == 0) else "offset"])
    ctx.require(isinstance(got, np.ndarray) and got.dtype == np.float64, "circle: dtype %r, expected float64" % getattr(got, "dtype", None))
    ctx.equal(got, want, "circle(%r,%r,(%r,%r),%r) vs exact indicator" % (r, size, cx, cy, origin))
    # default arguments mean centre (0,0), origin middle
    if cx == 0 and cy == 0 and origin == "middle":
        ctx.equal(pupil.circle(r, size), want, "circle(r,size) default arguments")
        # D4 symmetry
        for name, f in (("transpose", lambda a: a.T), ("flipud", np.flipud), ("fliplr", np.fliplr)):
            ctx.equal(f(got), got, "circle centred: %s symmetry" % name)
    # nested in r
    r2 = case["r2"]
    big = pupil.circle(max(r, r2), size, centre, origin)
    small = pupil.circle(min(r, r2), size, centre, origin)
    ctx.require(np.all(small <= big), "circle: not nested in radius (%r vs %r)" % (r, r2))
    ctx.equal(pupil.circle(r, size, centre, origin), want, "circle(%r,%r,(%r,%r),%r) called again with the same centre object vs exact indicator" % (r, size, cx, cy, origin))
    ctx.require(carr[0] == cx and carr[1] == cy, "circle modified the centre array it was given: %r -> %r" % ((cx, cy), carr.tolist()))
    # integer shift of the centre = shift of the mask on the pixels that stay in frame
    kx, ky = case["kx"], case["ky"]
    sh = pupil.circle(r, size, (cx + kx, cy + ky), origin)
    ys, xs = slice(max(0, ky), max(0, size + min(0, ky))), slice(max(0, kx), max(0, size + min(0, kx)))
    yo, xo = slice(max(0, -ky), max(0, size + min(0, -ky))), slice(max(0, -kx), max(0, size + min(0, -kx)))
    ctx.equal(sh[ys, xs], got[yo, xo], "circle: integer shift (%d,%d) of the centre" % (kx, ky))


PYTH = [(3, 4, 5), (4, 3, 5), (5, 12, 13), (12, 5, 13), (6, 8, 10), (8, 15, 17), (0, 1, 1), (1, 0, 1), (0, 4, 4), (7, 24, 25)]


@st.composite
def circle_exact_cases(draw):
    size = draw(st.integers(1, 24))
    origin = draw(st.sampled_from(["middle", "corner"]))
    mode = draw(st.sampled_from(["free", "pyth", "pyth", "centred"]))
    if mode == "pyth":
        # force a pixel centre exactly on the boundary: choose pixel (i,j), offset (a,b,c)/8 * s
        a, b, c = draw(st.sampled_from(PYTH))
        s = draw(st.sampled_from([1, 2, 4, 8]))
        i, j = draw(st.integers(0, size - 1)), draw(st.integers(0, size - 1))
        sx, sy = draw(st.sampled_from([-1, 1])), draw(st.sampled_from([-1, 1]))
        o = size / 2.0 if origin == "middle" else 0.0
        cx = (j + 0.5 - o) - sx * a * s / 8.0
        cy = (i + 0.5 - o) - sy * b * s / 8.0
        r = c * s / 8.0
    elif mode == "centred":
        cx = cy = 0.0
        r = draw(st.one_of(gen.dyadic(0, 20), st.integers(0, 40).map(float)))
    else:
        cx = draw(gen.dyadic(-size, size))
        cy = draw(gen.dyadic(-size, size))
        r = draw(gen.dyadic(0, 20))
    return {"r": r, "size": size, "cx": cx, "cy": cy, "origin": origin, "r2": draw(gen.dyadic(0, 20)),
            "kx": draw(st.integers(-3, 3)), "ky": draw(st.integers(-3, 3)), "centre_as": draw(st.sampled_from(["tuple", "tuple", "list", "array", "array"]))}


def circle_float_body(ctx, case):
    pupil, _ = aot()
    r, size, cx, cy, origin = case["r"], case["size"], case["cx"], case["cy"], case["origin"]
    got = pupil.circle(r, size, (cx, cy), origin)
    o = size / 2.0 if origin == "middle" else 0.0
    # independent evaluation in extended precision
    c = np.arange(size, dtype=np.longdouble) + np.longdouble(0.5) - np.longdouble(o)
    dx = c[None, :] - np.longdouble(cx)
    dy = c[:, None] - np.longdouble(cy)
    d2 = dx * dx + dy * dy
    r2 = np.longdouble(r) * np.longdouble(r)
    # pixels are judged unless they are closer to the rim than double-precision evaluation of the coordinates can
    # resolve: each coordinate carries at most a few ulp of (size + |centre|), and near the rim |dx|, |dy| <= r
    margin = 32 * 2.3e-16 * ((2 * r + 1) * (size + abs(cx) + abs(cy)) + float(r2) + 1e-300)
    judged = np.abs(d2 - r2) > margin
    want = (d2 <= r2).astype(np.float64)
    inside = (abs(cx) + r + 1 < size / 2.0 and abs(cy) + r + 1 < size / 2.0) if origin == "middle" else \
        (cx - r - 1 > 0 and cy - r - 1 > 0 and cx + r + 1 < size and cy + r + 1 < size)
    ctx.case(case, nontrivial=bool(want.sum() > 0 and (cx != 0 or cy != 0)),
             classes=[origin, "disc_inside_frame" if inside else "disc_clipped",
                      "pixel_within_1e-6_of_rim" if bool(np.any(judged & (np.abs(d2 - r2) < 2e-6 * float(r2)))) else "no_pixel_near_rim"])
    ctx.require(got.shape == (size, size), "circle: shape %s" % (got.shape,))
    ctx.require(set(np.unique(got).tolist()) <= {0.0, 1.0}, "circle: values not in {0,1}")
    bad = judged & (got != want)
    ctx.require(not bad.any(), "circle(%r,%r,(%r,%r),%r): %d pixels differ from the indicator (first %s)" % (
        r, size, cx, cy, origin, int(bad.sum()), tuple(int(v) for v in np.argwhere(bad)[0]) if bad.any() else None))
    if inside:
        area = float(got.sum())
        lo = math.pi * max(0.0, r - math.sqrt(0.5)) ** 2
        hi = math.pi * (r + math.sqrt(0.5)) ** 2
        ctx.require(lo - 1e-9 <= area <= hi + 1e-9, "circle: area %r outside [pi(r-.707)^2, pi(r+.707)^2]=[%r,%r]" % (area, lo, hi))


@st.composite
def circle_float_cases(draw):
    size = draw(st.integers(1, 48))
    origin = draw(st.sampled_from(["middle", "corner"]))
    r = draw(st.floats(0, 30, allow_nan=False))
    if origin == "middle":
        cx = draw(st.floats(-size / 2.0, size / 2.0, allow_nan=False))
        cy = draw(st.floats(-size / 2.0, size / 2.0, allow_nan=False))
    else:
        cx = draw(st.floats(0, size, allow_nan=False))
        cy = draw(st.floats(0, size, allow_nan=False))
    if draw(st.booleans()):
        r = min(r, size / 4.0)
    if draw(st.booleans()):
        # put one pixel centre just inside or just outside the rim: r = distance * (1 +- 10^-k)
        i, j = draw(st.integers(0, size - 1)), draw(st.integers(0, size - 1))
        o = size / 2.0 if origin == "middle" else 0.0
        d = math.hypot(j + 0.5 - o - cx, i + 0.5 - o - cy)
        k = draw(st.integers(6, 13))
        r = d * (1.0 + draw(st.sampled_from([-1.0, 1.0])) * 10.0 ** (-k))
    return {"r": r, "size": size, "cx": cx, "cy": cy, "origin": origin}


def circle_enum_run(ctx):
    """Exhaustive: size 1..6 (quick 1..5), r, cx, cy in {0, 1/2, ..} grids, both origins."""
    pupil, _ = aot()
    maxsize = 5 if ctx.tier == "quick" else 7
    combos = []
    for size in range(1, maxsize + 1):
        for origin in ("middle", "corner"):
            combos.append((size, origin))
    n = nt = 0
    sample = None
    for idx, (size, origin) in enumerate(combos):
        if idx % ctx.nshards != ctx.shard:
            continue
        rs = [k / 2.0 for k in range(0, 2 * size + 3)]
        cs = [k / 2.0 for k in range(-size - 1, size + 2)]
        o = Fraction(size, 2) if origin == "middle" else Fraction(0)
        pc = [Fraction(2 * i + 1, 2) - o for i in range(size)]
        for cx in cs:
            dx2 = [(p - Fraction(cx)) ** 2 for p in pc]
            for cy in cs:
                dy2 = [(p - Fraction(cy)) ** 2 for p in pc]
                d2 = [[dy2[i] + dx2[j] for j in range(size)] for i in range(size)]
                for r in rs:
                    rr = Fraction(r) ** 2
                    want = np.array([[1.0 if d2[i][j] <= rr else 0.0 for j in range(size)] for i in range(size)])
                    got = pupil.circle(r, size, (cx, cy), origin)
                    n += 1
                    onb = any(d2[i][j] == rr for i in range(size) for j in range(size))
                    nt += 1 if (onb or cx or cy or origin == "corner") else 0
                    if got.shape != want.shape or not np.array_equal(got, want):
                        from ..core import Failure
                        case = {"r": r, "size": size, "cx": cx, "cy": cy, "origin": origin, "r2": r, "kx": 0, "ky": 0}
                        e = Violation("circle(%r,%r,(%r,%r),%r) differs from exact indicator" % (r, size, cx, cy, origin))
                        raise Failure(case, e, None)
                    if sample is None and onb and cx:
                        sample = {"r": r, "size": size, "cx": cx, "cy": cy, "origin": origin}
    ctx.bulk(n, nt, sample=sample,
             exhaustive="circle: all size<=%d, r in {0,.5,..,size+1}, cx,cy in {-(size+1),..,size+1} step .5, both origins" % maxsize)


def circle_enum_replay(ctx, case):
    circle_exact_body(ctx, case)


# ------------------------------------------------------------------ sub-aperture selection

@st.composite
def select_cases(draw):
    subaps = draw(st.integers(1, 8))
    divisible = draw(st.booleans())
    if divisible:
        k = draw(st.integers(1, 6))
        size = subaps * k
    else:
        size = draw(st.integers(subaps, 40))
    if draw(st.integers(0, 5)) == 0:
        # more sub-apertures than pixels across the mask (an oversampled grid on a coarse mask): cells whose rounded bounds
        # coincide contain no pixel, have no mean and are never selected; the others are selected by their mean as always
        subaps = draw(st.integers(2, 12))
        size = draw(st.integers(1, subaps - 1))
        divisible = False
    kind = draw(st.sampled_from(["circle", "annulus", "rand01", "frac", "ones"]))
    if kind in ("circle", "annulus"):
        r = draw(st.floats(0.5, size / 2.0 + 1))
        ri = draw(st.floats(0, r)) if kind == "annulus" else 0.0
        c = np.arange(size) + 0.5 - size / 2.0
        d2 = c[None, :] ** 2 + c[:, None] ** 2
        mask = ((d2 <= r * r) & (d2 >= ri * ri)).astype(np.float64)
    elif kind == "rand01":
        mask = draw(gen.mask01(size, min_active=0)).astype(np.float64)
    elif kind == "frac":
        # multiples of 1/16 so that block sums are exact
        mask = draw(gen.int_array((size, size), 0, 16)).astype(np.float64) / 16.0
    else:
        mask = np.ones((size, size))
    if draw(st.booleans()):
        mask = mask.astype(draw(st.sampled_from(["int64", "float32", "bool"]))) if kind != "frac" else mask
    tmode = draw(st.sampled_from(["attained", "attained", "free", "zero", "above"]))        # above every cell mean: the empty selection
    return {"subaps": subaps, "mask": mask, "tmode": tmode, "tpick": draw(st.integers(0, 10**6)),
            "tfree": draw(gen.dyadic(0, 1, 4096)), "t2": draw(gen.dyadic(0, 1, 4096)), "t_as": draw(st.sampled_from(["python", "numpy"]))}


def cell_means_divisible(mask, subaps):
    size = mask.shape[0]
    k = size // subaps
    m = mask.astype(np.float64).reshape(subaps, k, subaps, k)
    return m.mean(axis=(1, 3)), k


@st.composite
def rect_cases(draw):
    subaps = draw(st.integers(1, 7))
    kx, ky = draw(st.integers(1, 6)), draw(st.integers(1, 6))
    mask = draw(gen.int_array((subaps * kx, subaps * ky), 0, 16)).astype(np.float64) / 16.0
    if draw(st.booleans()):
        mask = (mask > 0.4).astype(draw(st.sampled_from(["float64", "int64"])))
    return {"subaps": subaps, "kx": kx, "ky": ky, "mask": mask, "tpick": draw(st.integers(0, 10**6)), "tfree": draw(gen.dyadic(0, 1, 4096)), "attained": draw(st.booleans())}


def rect_body(ctx, case):
    """Masks need not be square: an (n kx) x (n ky) mask has n x n cells of kx x ky pixels."""
    _, wfslib = aot()
    n, kx, ky, mask = case["subaps"], case["kx"], case["ky"], case["mask"]
    means = np.array([[mask[x * kx:(x + 1) * kx, y * ky:(y + 1) * ky].mean() for y in range(n)] for x in range(n)])
    att = sorted(set(means.ravel().tolist()))
    t = att[case["tpick"] % len(att)] if case["attained"] else case["tfree"]
    ctx.case({"subaps": n, "mask": mask, "t": t}, nontrivial=kx != ky, classes=["square_cells" if kx == ky else "rectangular_cells"])
    m0 = mask.copy()
    coords, fills = wfslib.findActiveSubaps(n, mask, t, returnFill=True)
    ctx.equal(mask, m0, "findActiveSubaps modified the mask")
    want_c = [[x * kx, y * ky] for x in range(n) for y in range(n) if means[x, y] >= t]
    want_f = [means[x, y] for x in range(n) for y in range(n) if means[x, y] >= t]
    ctx.require(len(coords) == len(want_c), "findActiveSubaps on a %s mask, %d sub-apertures, t=%r: %d cells selected, %d have mean >= threshold" % (mask.shape, n, t, len(coords), len(want_c)))
    if want_c:
        ctx.equal(np.asarray(coords, dtype=float), np.asarray(want_c, dtype=float), "findActiveSubaps coordinates on a rectangular mask")
        ctx.equal(np.asarray(fills), np.asarray(want_f), "findActiveSubaps fill factors on a rectangular mask")


def select_body(ctx, case):
    _, wfslib = aot()
    subaps, mask = case["subaps"], case["mask"]
    size = mask.shape[0]
    divisible = size % subaps == 0
    if divisible:
        # exact cell means as rationals: every mask value generated here (0/1, multiples of 1/16) is exactly representable in
        # every storage type used, so "mean mask value >= threshold" has one answer whatever the dtype of the mask
        k = size // subaps
        exact = [[sum(Fraction(float(v)) for v in mask[x * k:(x + 1) * k, y * k:(y + 1) * k].ravel()) / (k * k) for y in range(subaps)] for x in range(subaps)]
        means = np.array([[float(exact[x][y]) for y in range(subaps)] for x in range(subaps)])
        attained = sorted(set(means.ravel().tolist()))
    else:
        attained = None
    if case["tmode"] == "attained" and divisible:
        t = attained[case["tpick"] % len(attained)]
    elif case["tmode"] == "zero":
        t = 0.0
    elif case["tmode"] == "above":
        t = 1.0 + case["tfree"] + 2.0 ** -20
    else:
        t = case["tfree"]
    if case.get("t_as") == "numpy":
        t = np.float64(t)              # e.g. an element of an array of thresholds
    maskc = mask.copy()
    import warnings as _w
    with _w.catch_warnings():
        _w.simplefilter("ignore")           # the mean of a pixel-less cell warns (size < subaps); what is decided is the selection
        coords, fills = wfslib.findActiveSubaps(subaps, maskc, t, returnFill=True)
        coords_only = wfslib.findActiveSubaps(subaps, maskc, t)
    if size < subaps:
        ctx.classes["more_subaps_than_pixels"] += 1
    ctx.case({"subaps": subaps, "mask": mask, "t": t}, nontrivial=bool((divisible and case["tmode"] == "attained") or not divisible),
             classes=["divisible" if divisible else "non_divisible", "t_" + case["tmode"], "mask_" + str(mask.dtype), "threshold_" + case.get("t_as", "python")])
    ctx.equal(maskc, mask, "findActiveSubaps modified the mask")
    ctx.equal(coords_only, coords, "findActiveSubaps with/without returnFill")
    ctx.require(len(fills) == len(coords), "fills/coords length mismatch")
    sp = size / float(subaps)
    if divisible:
        want_c, want_f = [], []
        for x in range(subaps):
            for y in range(subaps):
                # the mean as the nearest double (sums of these values are exact, the division is correctly rounded) against
                # the threshold: one answer, whatever type the mask is stored in
                sel = float(exact[x][y]) >= float(t)
                if abs(exact[x][y] - Fraction(float(t))) <= Fraction(1, 2**50):
                    ctx.classes["mean_within_an_ulp_of_threshold"] += 1
                if sel:
                    want_c.append([x * k, y * k])
                    want_f.append(means[x, y])
        want_c = np.array(want_c, dtype=np.float64).reshape(-1, 2)          # a set of n cells is an (n, 2) array, also for n = 0
        ctx.equal(np.asarray(coords, dtype=np.float64), want_c,
                  "findActiveSubaps: active cells (divisible mask %dx%d, %d subaps, t=%r)" % (size, size, subaps, t))
        ctx.close(np.asarray(fills, dtype=np.float64), np.array(want_f), 1e-12 if mask.dtype != np.float32 else 1e-6, "findActiveSubaps: fill factors = block means", scale=1.0, name="fill factors (%s mask)" % mask.dtype)
        if len(coords):
            ff = wfslib.computeFillFactor(maskc, coords, k)
            ctx.equal(np.asarray(ff), np.asarray(fills), "computeFillFactor vs fills from findActiveSubaps")
            ctx.equal(maskc, mask, "computeFillFactor modified the mask")
    else:
        # validity predicate: each cell's bounds may round either way
        got = {(float(c[0]), float(c[1])): float(f) for c, f in zip(np.asarray(coords).reshape(-1, 2), fills)}
        ctx.require(len(got) == len(fills), "duplicate coordinates returned")
        order = [(x * sp, y * sp) for x in range(subaps) for y in range(subaps)]
        keys = [tuple(map(float, c)) for c in np.asarray(coords).reshape(-1, 2)]
        pos = {k_: i for i, k_ in enumerate(order)}
        ctx.require(all(k_ in pos for k_ in keys), "coordinates are not x*spacing, y*spacing grid points")
        ctx.require([pos[k_] for k_ in keys] == sorted(pos[k_] for k_ in keys), "coordinates not in row-major order")
        m64 = mask.astype(np.float64)
        for x in range(subaps):
            for y in range(subaps):
                cands = []
                may_be_empty = False          # some admissible rounding of the bounds leaves the cell without a pixel
                for a in {math.floor(x * sp), math.ceil(x * sp)}:
                    for b in {math.floor((x + 1) * sp), math.ceil((x + 1) * sp)}:
                        for c in {math.floor(y * sp), math.ceil(y * sp)}:
                            for d in {math.floor((y + 1) * sp), math.ceil((y + 1) * sp)}:
                                if not (b > a and d > c):
                                    may_be_empty = True
                                if b > a and d > c:
                                    cands.append(float(m64[a:b, c:d].mean()))
                                    cands.append(float(mask[a:b, c:d].mean()))
                key = (x * sp, y * sp)
                if not cands:
                    ctx.require(key not in got, "cell %s contains no pixel for any rounding of its bounds (mask %dx%d, %d sub-apertures) but was selected with fill %r at threshold %r" % (key, size, size, subaps, got.get(key), t))
                    continue
                if key in got:
                    ctx.require(any(abs(got[key] - c_) <= 1e-12 * (1 + abs(c_)) for c_ in cands), "fill %r of cell %s is not the mean of any admissible cell rectangle" % (got[key], key))
                    ctx.require(got[key] >= t, "active cell %s has fill %r < threshold %r" % (key, got[key], t))
                elif not may_be_empty:
                    ctx.require(any(c_ < t for c_ in cands), "cell %s with every admissible mean >= threshold %r was not selected" % (key, t))
    # monotone shrink in the threshold; fills within [t, 1]
    t2 = case["t2"]
    lo, hi = min(t, t2), max(t, t2)
    with _w.catch_warnings():
        _w.simplefilter("ignore")
        clo = wfslib.findActiveSubaps(subaps, maskc, lo)
        chi = wfslib.findActiveSubaps(subaps, maskc, hi)
    slo = {tuple(map(float, c)) for c in np.asarray(clo).reshape(-1, 2)}
    shi = {tuple(map(float, c)) for c in np.asarray(chi).reshape(-1, 2)}
    ctx.require(shi <= slo, "active set does not shrink monotonically with the threshold (%r -> %r)" % (lo, hi))
    if len(fills):
        slack = 1e-6 if mask.dtype == np.float32 else 1e-15          # fills of a float32 mask may be reported in single precision
        ctx.require(float(np.min(fills)) >= t - slack and float(np.max(fills)) <= 1.0 + 1e-12, "fill factors outside [t,1]")


# ------------------------------------------------------------------ make_subaps_2d round trip

@st.composite
def scatter_cases(draw):
    n = draw(st.integers(1, 9))
    mask = draw(gen.mask01(n, min_active=0))
    mdt = draw(st.sampled_from(["int64", "float64", "bool", "int8"]))
    mask = mask.astype(mdt)
    ns = int((mask == 1).sum())
    frames = draw(st.integers(1, 5))
    ddt = draw(st.sampled_from(["float64", "float32", "int32", "int64", "complex128"]))
    seed = draw(st.integers(0, 2**32 - 1))
    rng = gen.np_rng(seed)
    if ddt.startswith("int"):
        data = rng.integers(-1000, 1000, size=(frames, 2, ns)).astype(ddt)
    elif ddt == "complex128":
        data = rng.normal(size=(frames, 2, ns)) + 1j * rng.normal(size=(frames, 2, ns))
    else:
        data = rng.normal(size=(frames, 2, ns)).astype(ddt)
    return {"mask": mask, "data": data, "all_valid": draw(st.integers(0, 5)) == 0}


def scatter_body(ctx, case):
    _, wfslib = aot()
    mask, data = case["mask"], case["data"]
    if case.get("all_valid"):
        # every sub-aperture valid (a full square sensor): the map is then just the data in another shape
        mask = np.ones_like(mask)
        nv = int(mask.size)
        data = np.ascontiguousarray(np.resize(data, (data.shape[0], 2, nv)).astype(data.dtype))
        ctx.classes["all_sub_apertures_valid"] += 1
    m0, d0 = mask.copy(), data.copy()
    out = wfslib.make_subaps_2d(data, mask)
    ctx.case(case, nontrivial=bool(0 < (mask == 1).sum() < mask.size and data.shape[0] >= 2),
             classes=["data_" + str(data.dtype), "mask_" + str(mask.dtype)])
    ctx.equal(mask, m0, "make_subaps_2d modified mask")
    ctx.equal(data, d0, "make_subaps_2d modified data")
    ctx.require(out.shape == (data.shape[0], 2) + mask.shape, "make_subaps_2d shape %s" % (out.shape,))
    ctx.require(out.dtype == data.dtype, "make_subaps_2d dtype %s != %s" % (out.dtype, data.dtype))
    sel = mask == 1
    ctx.equal(out[:, :, sel], data, "make_subaps_2d(data, m)[:, :, m == 1] == data")
    ctx.require(not np.any(out[:, :, ~sel]), "make_subaps_2d non-zero outside the mask")
    # the map is a new array: the caller refills its slope buffer in place for the next frame, the map of this frame stays
    ctx.require(not np.shares_memory(out, data), "make_subaps_2d returned a view of the slope array it was given (mask %s, %d of %d valid)" % (mask.shape, int(sel.sum()), mask.size))
    # history: the caller edits the SAME mask array in place (moves one sub-aperture) and calls again
    on, off = np.argwhere(mask == 1), np.argwhere(mask != 1)
    if len(on) and len(off):
        a_, b_ = tuple(on[len(on) // 2]), tuple(off[len(off) // 3])
        mask[a_], mask[b_] = mask[b_], mask[a_]
        out2 = wfslib.make_subaps_2d(data, mask)
        sel2 = mask == 1
        ctx.equal(out2[:, :, sel2], data, "make_subaps_2d after an in-place edit of the same mask array: read-back through the edited mask")
        ctx.require(not np.any(out2[:, :, ~sel2]), "make_subaps_2d after an in-place edit of the mask: non-zero outside the edited mask")
        ctx.equal(wfslib.make_subaps_2d(data, m0), out, "make_subaps_2d with the original mask again")


LAWS = [
    given_law("circle_exact", circle_exact_cases(), circle_exact_body, {"quick": 1500, "thorough": 15000}, shards={"quick": 3, "thorough": 16}),
    given_law("circle_float", circle_float_cases(), circle_float_body, {"quick": 1500, "thorough": 20000}, shards={"quick": 3, "thorough": 16}),
    Law("circle_enum", circle_enum_run, replay=circle_enum_replay, shards={"quick": 10, "thorough": 14}),
    given_law("select", select_cases(), select_body, {"quick": 800, "thorough": 12500}, shards={"quick": 3, "thorough": 16}),
    given_law("select_rectangular", rect_cases(), rect_body, {"quick": 400, "thorough": 2500}, shards={"quick": 2, "thorough": 16}),
    given_law("scatter", scatter_cases(), scatter_body, {"quick": 500, "thorough": 7500}, shards={"quick": 3, "thorough": 16}),
]
