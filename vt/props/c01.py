"""C01 - slope covariance matrix equals the true covariance of the WFS slopes."""
import math

import numpy as np
from hypothesis import strategies as st

from ..core import EPS32, given_law, plain_law
from .. import gen
from ..oracles import slopes, vk

RULE = ("n_wfs 1..4; per WFS a 0/1 mask on an n x n grid (n 2..7) from a drawn structural class (point-symmetric, "
        "mirror-symmetric only, fully asymmetric, full, single cell); sub-aperture diameters equal or different across "
        "WFS; guide-star offsets 0 or up to +-120 arcsec; NGS (altitude 0) / LGS (10-200 km) mixes; wavelengths equal or "
        "different; 1-3 layers with altitude 0..20 km below every LGS, r0 in [0.05,2], L0 in [2,200]. Oracle: independent "
        "finite-difference slope covariance (float64, own von Karman D). Non-trivial = >=2 WFS, or an asymmetric mask, "
        "or an off-axis GS with a layer above ground, or an NGS/LGS mix. Distinct = canonical JSON."
        " Also: sensors of different order on one telescope (1x1 .. 7x7 masks mixed)."
        " After a history the builder's matrix is compared with its copy after make_tomographic_reconstructor().")
ASSUMPTIONS = ["axis 'x' = first index of the pupil mask, (X,Y) guide-star offsets act on (first, second) mask axis; sub-aperture centre (i+1/2) d - D/2",
               "the code's rounded constant 0.17253 (vs 0.172629) is accepted (C08 checks the rounding band)",
               "matrix stored in float32: entry tolerance 16*eps32 of the matrix scale; PSD: lambda_min >= -1e-5 lambda_max"]

TOL = 16 * EPS32       # float32 accumulation over the layers (measured 2.5 eps32); was 64 eps32 while the matrix was mirrored by a bitwise OR
KF_B = "C01-unequal-projected-diameters"


def SC():
    from aotools.turbulence import slopecovariance
    return slopecovariance


@st.composite
def mask_strategy(draw, n):
    kind = draw(st.sampled_from(["point_sym", "mirror_sym", "asym", "asym", "full", "single"]))
    seed = draw(st.integers(0, 2**32 - 1))
    rng = gen.np_rng(seed)
    if kind == "full":
        m = np.ones((n, n), dtype=np.int64)
    elif kind == "single":
        m = np.zeros((n, n), dtype=np.int64)
        m[rng.integers(0, n), rng.integers(0, n)] = 1
    else:
        m = (rng.uniform(size=(n, n)) < 0.55).astype(np.int64)
        if kind == "point_sym":
            m = m | m[::-1, ::-1]
        elif kind == "mirror_sym":
            m = m | m[::-1, :]
        if not m.any():
            m[0, n - 1] = 1
    return m, kind


@st.composite
def geometry(draw, max_wfs=4, max_n=7, max_layers=3):
    n_wfs = draw(st.integers(1, max_wfs))
    n = draw(st.integers(2, max_n))
    D = draw(st.sampled_from([1.0, 4.2, 8.0, 39.0]))
    same_mask = draw(st.booleans())
    masks, kinds = [], []
    # sensors of different order on one telescope (a 2 x 2 truth sensor next to 7 x 7 laser sensors, a 1 x 1 tip-tilt star)
    mixed_orders = (not same_mask) and draw(st.integers(0, 3)) == 0
    orders = []
    for w in range(n_wfs):
        if w == 0 or not same_mask:
            nw = draw(st.integers(1, max_n)) if mixed_orders else n
            m, k = draw(mask_strategy(nw))
        masks.append(m.copy())
        kinds.append(k)
        orders.append(m.shape[0])
    diam_mode = draw(st.sampled_from(["equal", "equal", "equal", "different"]))
    diams = [D / orders[w] if diam_mode == "equal" else D / orders[w] * draw(st.sampled_from([1.0, 0.5, 0.8, 1.25])) for w in range(n_wfs)]
    alt_mode = draw(st.sampled_from(["ngs", "lgs_same", "mixed", "lgs_diff"]))
    alts = []
    H0 = draw(st.sampled_from([10e3, 25e3, 90e3, 200e3]))
    for w in range(n_wfs):
        if alt_mode == "ngs":
            alts.append(0)
        elif alt_mode == "lgs_same":
            alts.append(H0)
        elif alt_mode == "mixed":
            alts.append(draw(st.sampled_from([0, H0])))
        else:
            alts.append(draw(st.sampled_from([30e3, 90e3, 200e3])))
    pos_mode = draw(st.sampled_from(["on_axis", "off", "off"]))
    gspos = [[0.0, 0.0] if pos_mode == "on_axis" else [draw(st.sampled_from([0.0, -120.0, -33.0, 7.5, 20.0, 60.0, 120.0])), draw(st.sampled_from([0.0, -60.0, -10.0, 15.0, 45.0, 120.0]))] for _ in range(n_wfs)]
    wl_mode = draw(st.booleans())
    wls = [500e-9 if not wl_mode else draw(st.sampled_from([400e-9, 589e-9, 1.65e-6, 2.2e-6])) for _ in range(n_wfs)]
    # the covariance is proportional to the product of the wavelengths: with wavelengths given in microns or nanometres the
    # slopes simply come out in other units (a common convention), the same numbers times 1e12 / 1e18
    wl_unit = draw(st.sampled_from([1.0, 1.0, 1e6, 1e9]))
    wls = [w * wl_unit for w in wls]
    # whole-metre sub-apertures given as Python ints
    if all(float(d).is_integer() for d in diams) and draw(st.booleans()):
        diams = [int(d) for d in diams]
    n_layers = draw(st.integers(1, max_layers))
    hmax = min([a for a in alts if a] + [40e3]) * 0.45
    layer_alts = sorted(draw(st.sampled_from([0.0, 0.0, 500.0, 4000.0, 9000.0, 20000.0])) for _ in range(n_layers))
    layer_alts = [min(h, hmax) for h in layer_alts]
    if any(alts) and draw(st.integers(0, 3)) == 0:
        # Rayleigh beacons at 10 - 25 km look through only part of the atmosphere: a layer at or above the lowest beacon
        # (the customary 0 / 10 / 20 km grid has one AT a 10 or 20 km beacon) contributes nothing to that sensor's blocks
        hb = min(a for a in alts if a)
        layer_alts = sorted(layer_alts[:-1] + [hb * draw(st.sampled_from([1.0, 1.0, 1.001, 1.5, 2.0]))])
    r0s = [draw(gen.logfloat(0.05, 2.0)) for _ in range(n_layers)]
    L0s = [draw(st.one_of(gen.logfloat(2.0, 200.0), gen.logfloat(200.0, 1e5))) for _ in range(n_layers)]
    arg_types = draw(st.sampled_from(["lists", "lists", "arrays"]))
    return {"arg_types": arg_types, "surplus": draw(st.sampled_from([0, 0, 0, 1, 2])), "n_wfs": n_wfs, "pupil_masks": masks, "mask_kinds": kinds, "telescope_diameter": D, "subap_diameters": diams, "gs_altitudes": alts,
            "gs_positions": gspos, "wfs_wavelengths": wls, "n_layers": n_layers, "layer_altitudes": layer_alts, "layer_r0s": r0s, "layer_L0s": L0s}


def build(cfg, threads=1, **over):
    c = dict(cfg)
    c.update(over)
    if c.get("surplus"):
        # more guide stars / layers tabulated than n_wfs / n_layers says are in use (the repository's tests do this
        # with gs_positions): the surplus entries must be ignored
        k = c["surplus"]
        c["gs_positions"] = [list(p) for p in c["gs_positions"]] + [[77.0, -31.0]] * k
        c["gs_altitudes"] = list(c["gs_altitudes"]) + [15e3] * k
        c["wfs_wavelengths"] = list(c["wfs_wavelengths"]) + [1.0e-6] * k
        c["subap_diameters"] = list(c["subap_diameters"]) + [0.123] * k
        c["layer_altitudes"] = list(c["layer_altitudes"]) + [3333.0] * k
        c["layer_r0s"] = list(c["layer_r0s"]) + [0.07] * k
        c["layer_L0s"] = list(c["layer_L0s"]) + [11.0] * k
    if c.get("arg_types") == "arrays":
        # the documented argument types: float64 ndarrays (kept by the caller, so in-place edits by the library are visible)
        a = [np.array(m) for m in c["pupil_masks"]], np.array(c["subap_diameters"], dtype=float), np.array(c["gs_altitudes"], dtype=float), \
            np.array(c["gs_positions"], dtype=float), np.array(c["wfs_wavelengths"], dtype=float), np.array(c["layer_altitudes"], dtype=float), \
            np.array(c["layer_r0s"], dtype=float), np.array(c["layer_L0s"], dtype=float)
    else:
        a = [np.array(m) for m in c["pupil_masks"]], list(c["subap_diameters"]), list(c["gs_altitudes"]), [list(p) for p in c["gs_positions"]], \
            list(c["wfs_wavelengths"]), list(c["layer_altitudes"]), list(c["layer_r0s"]), list(c["layer_L0s"])
    import copy
    before = copy.deepcopy(a)
    cm = SC().CovarianceMatrix(c["n_wfs"], a[0], c["telescope_diameter"], a[1], a[2], a[3], a[4], c["n_layers"], a[5], a[6], a[7], threads)
    out = np.array(cm.make_covariance_matrix())
    for x, y, nm in zip(a, before, ("pupil_masks", "subap_diameters", "gs_altitudes", "gs_positions", "wfs_wavelengths", "layer_altitudes", "layer_r0s", "layer_L0s")):
        same = all(np.array_equal(p, q) for p, q in zip(x, y)) if isinstance(x, list) and len(x) and isinstance(x[0], np.ndarray) else np.array_equal(np.asarray(x, dtype=object if isinstance(x, list) and len(x) and isinstance(x[0], list) else None), np.asarray(y, dtype=object if isinstance(y, list) and len(y) and isinstance(y[0], list) else None))
        if not same:
            from ..core import Violation
            raise Violation("make_covariance_matrix modified its %s argument (%s)" % (nm, c.get("arg_types", "lists")))
    return out, cm


def classes_of(cfg):
    cl = ["wfs%d" % cfg["n_wfs"], "layers%d" % cfg["n_layers"]]
    cl += sorted(set("mask_" + k for k in cfg["mask_kinds"]))
    alts = cfg["gs_altitudes"]
    cl.append("all_ngs" if not any(alts) else ("all_lgs" if all(alts) else "ngs_lgs_mix"))
    cl.append("diam_equal" if len(set(cfg["subap_diameters"])) == 1 else "diam_different")
    offaxis = any(any(p) for p in cfg["gs_positions"]) and any(h > 0 for h in cfg["layer_altitudes"])
    cl.append("offaxis_at_altitude" if offaxis else "no_parallax")
    cl.append("args_" + cfg.get("arg_types", "lists"))
    if any(H and h >= H for H in cfg["gs_altitudes"] for h in cfg["layer_altitudes"][:cfg["n_layers"]]):
        cl.append("layer_at_or_above_a_beacon")
    cl.append("wavelengths_SI" if max(cfg["wfs_wavelengths"]) < 1e-3 else "wavelengths_in_microns_or_nm")
    if all(isinstance(d, int) for d in cfg["subap_diameters"]):
        cl.append("integer_subap_diameters")
    cl.append("surplus_entries" if cfg.get("surplus") else "exact_lengths")
    cl.append("L0_over_r0_gt_1e5" if any(L / r > 1e5 for L, r in zip(cfg["layer_L0s"], cfg["layer_r0s"])) else "L0_over_r0_le_1e5")
    return cl, offaxis


def nontrivial(cfg):
    cl, offaxis = classes_of(cfg)
    return cfg["n_wfs"] >= 2 or any(k in ("asym", "mirror_sym") for k in cfg["mask_kinds"]) or offaxis or "ngs_lgs_mix" in cl


def compare(ctx, got, cfg, what="slope covariance"):
    want, metas = slopes.covariance(cfg)
    n = want.shape[0]
    ctx.require(got.shape == (n, n), "%s: shape %s, expected (%d,%d)" % (what, got.shape, n, n))
    ctx.require(got.dtype == np.float32, "%s: dtype %s" % (what, got.dtype))
    g = got.astype(np.float64)
    ctx.require(bool(np.all(np.isfinite(g))), "%s: non-finite entries" % what)
    scale = float(np.max(np.abs(want))) or 1.0
    judged = np.ones((n, n), dtype=bool)
    if ctx.is_open(KF_B):
        ex = slopes.unequal_diameter_mask(metas, n)
        if ex.any():
            ctx.exclude(KF_B, int(ex.sum()))
        judged &= ~ex
    err = np.abs(g - want) / scale
    if judged.any():
        worst = float(np.max(err[judged]))
        ctx.residual(what + " entries vs oracle", worst, TOL)
        if worst > TOL:
            i, j = np.unravel_index(int(np.argmax(np.where(judged, err, -1))), err.shape)
            mi, mj = metas[0][i], metas[0][j]
            ctx.require(False, "%s: entry [%d,%d] (WFS %d %s-slope x WFS %d %s-slope) = %r, finite-difference slope covariance = %r (error %.3g of the matrix scale)" % (
                what, i, j, mi[0], "xy"[mi[1]], mj[0], "xy"[mj[1]], float(g[i, j]), float(want[i, j]), worst))
    return g, want, judged


def cov_body(ctx, cfg):
    cl, _ = classes_of(cfg)
    ctx.case(cfg, nontrivial=nontrivial(cfg), classes=cl)
    masks0 = [np.array(m).copy() for m in cfg["pupil_masks"]]
    got, cm = build(cfg)
    for a, b in zip(masks0, cfg["pupil_masks"]):
        ctx.equal(np.array(b), a, "make_covariance_matrix modified a pupil mask")
    g, want, judged = compare(ctx, got, cfg)
    if judged.all():
        ctx.equal(got, got.T, "slope covariance matrix is not exactly symmetric")
        ev = np.linalg.eigvalsh(0.5 * (g + g.T))
        if ev[-1] > 0:
            ctx.residual("-lambda_min/lambda_max", max(0.0, -float(ev[0])) / float(ev[-1]), 1e-5)
            ctx.require(ev[0] >= -1e-5 * ev[-1], "slope covariance matrix not positive semi-definite: lambda_min/lambda_max = %.3g" % (ev[0] / ev[-1]))
        else:
            ctx.classes["all_zero_matrix (every layer at or above every beacon)"] += 1
            ctx.require(not np.any(g), "slope covariance matrix has no positive eigenvalue but is not zero")


# ------------------------------------------------------------------ a sensor of realistic order

def big_cases(tier):
    return [{"n": 28, "D": 8.0}] + ([{"n": 26, "D": 4.2}, {"n": 31, "D": 8.0}] if tier != "quick" else [])


def big_body(ctx, case):
    """One Shack-Hartmann of 26 x 26 .. 31 x 31 sub-apertures (more than 512 active ones: pairs of such sensors have more than
    2^18 sub-aperture pairs, where an implementation may start to work in blocks) next to a 6 x 6 laser sensor, two layers:
    every entry against the oracle, symmetry, positive semi-definiteness."""
    from aotools.functions.pupil import circle
    n, D = case["n"], case["D"]
    m = circle(n / 2.0, n).astype(int)
    # a few sub-apertures vignetted, so that the number of active ones is a prime: no way of cutting the sensor into equal
    # groups exists
    is_prime = lambda q: q >= 2 and all(q % d for d in range(2, int(q ** 0.5) + 1))
    lit = np.argwhere(m == 1)
    k_ = 0
    while not is_prime(int(m.sum())):
        m[tuple(lit[k_])] = 0
        k_ += 1
    cfg = {"arg_types": "lists", "surplus": 0, "n_wfs": 2, "pupil_masks": [m, circle(3, 6).astype(int)], "mask_kinds": ["circle", "circle"], "telescope_diameter": D,
           "subap_diameters": [D / n, D / 6], "gs_altitudes": [0, 90e3], "gs_positions": [[0.0, 0.0], [20.0, -10.0]], "wfs_wavelengths": [500e-9, 589e-9],
           "n_layers": 2, "layer_altitudes": [0.0, 9000.0], "layer_r0s": [0.15, 0.4], "layer_L0s": [25.0, 60.0]}
    ctx.case(case, nontrivial=True, classes=["n%d_active%d" % (n, int(m.sum()))])
    got, cm = build(cfg)
    g, want, judged = compare(ctx, got, cfg, what="slope covariance (sensor of %d active sub-apertures)" % int(m.sum()))
    ctx.equal(got, got.T, "slope covariance matrix is not exactly symmetric")
    ev = np.linalg.eigvalsh(0.5 * (g + g.T))
    ctx.require(ev[0] >= -1e-5 * ev[-1], "slope covariance matrix not positive semi-definite: lambda_min/lambda_max = %.3g" % (ev[0] / ev[-1]))


# ------------------------------------------------------------------ metamorphic relations (independent of the oracle)

@st.composite
def meta_cases(draw):
    cfg = draw(geometry(max_wfs=3, max_n=5, max_layers=3))
    cfg["k"] = draw(st.sampled_from([0.5, 2.0, 1.5, 3.0]))
    cfg["perm_seed"] = draw(st.integers(0, 1000))
    cfg["shift"] = [draw(st.sampled_from([-50.0, 13.0, 30.0])), draw(st.sampled_from([-20.0, 0.0, 40.0]))]
    cfg["which"] = draw(st.integers(0, 2))
    return cfg


def meta_body(ctx, cfg):
    cl, _ = classes_of(cfg)
    ctx.case(cfg, nontrivial=nontrivial(cfg), classes=cl)
    base, _ = build(cfg)
    b = base.astype(np.float64)
    scale = float(np.max(np.abs(b))) or 1.0
    k = cfg["k"]
    nsub = [int(np.sum(np.array(m) == 1)) for m in cfg["pupil_masks"]]
    off = np.concatenate([[0], np.cumsum([2 * n for n in nsub])])
    # additivity over layers
    if cfg["n_layers"] >= 2:
        acc = np.zeros_like(b)
        for l in range(cfg["n_layers"]):
            one, _ = build(cfg, n_layers=1, layer_altitudes=[cfg["layer_altitudes"][l]], layer_r0s=[cfg["layer_r0s"][l]], layer_L0s=[cfg["layer_L0s"][l]])
            acc += one.astype(np.float64)
        ctx.close(b, acc, TOL, "covariance additive over layers", scale=scale, name="additivity")
    # r0 scaling
    sc, _ = build(cfg, layer_r0s=[r * k for r in cfg["layer_r0s"]])
    ctx.close(sc.astype(np.float64), b * k ** (-5.0 / 3), TOL, "covariance scales as r0^(-5/3)", scale=scale * k ** (-5.0 / 3), name="r0 scaling")
    # wavelength of one WFS scaled by k: block (i,j) scales by k, diagonal block by k^2
    w = cfg["which"] % cfg["n_wfs"]
    wl = list(cfg["wfs_wavelengths"])
    wl[w] *= k
    scw, _ = build(cfg, wfs_wavelengths=wl)
    fac = np.ones_like(b)
    fac[off[w]:off[w + 1], :] *= k
    fac[:, off[w]:off[w + 1]] *= k
    ctx.close(scw.astype(np.float64), b * fac, TOL, "covariance scales as the product of the two sensors' wavelengths", scale=scale * k * k, name="wavelength scaling")
    # permuting the WFS list permutes the blocks
    if cfg["n_wfs"] >= 2:
        perm = list(gen.np_rng(cfg["perm_seed"]).permutation(cfg["n_wfs"]))
        pc = dict(cfg)
        for key in ("pupil_masks", "subap_diameters", "gs_altitudes", "gs_positions", "wfs_wavelengths", "mask_kinds"):
            pc[key] = [cfg[key][p] for p in perm]
        pm, _ = build(pc)
        idx = np.concatenate([np.arange(off[p], off[p + 1]) for p in perm])
        ctx.close(pm.astype(np.float64), b[np.ix_(idx, idx)], TOL, "permuting the WFS list permutes the blocks", scale=scale, name="wfs permutation")
    # common translation of all guide stars with a single NGS configuration leaves the matrix unchanged
    if not any(cfg["gs_altitudes"]):
        tr, _ = build(cfg, gs_positions=[[p[0] + cfg["shift"][0], p[1] + cfg["shift"][1]] for p in cfg["gs_positions"]])
        ctx.close(tr.astype(np.float64), b, TOL, "translating every NGS by a common offset changes nothing", scale=scale, name="common translation")
    # threads=2 assembles the same matrix (duplicated assembly code; scheduling is C03's business)
    mp, _ = build(cfg, threads=2)
    ctx.equal(mp, base, "threads=2 build differs from the single-process build")


EDITS = ["r0", "L0", "gs", "gs_alt", "wavelength", "layers", "subap", "threads", "none"]


@st.composite
def rebuild_cases(draw):
    cfg = draw(geometry(max_wfs=3, max_n=4, max_layers=3))
    cfg["surplus"] = 0
    cfg["edits"] = draw(st.lists(st.sampled_from(EDITS), min_size=1, max_size=4))
    return cfg


def apply_edit(cur, cm, e, step):
    if e == "r0":
        cur["layer_r0s"] = [r * (1.7 if (i + step) % 2 == 0 else 0.6) for i, r in enumerate(cur["layer_r0s"])]
        cm.layer_r0s = list(cur["layer_r0s"])
    elif e == "L0":
        cur["layer_L0s"] = [x * 2.0 for x in cur["layer_L0s"]]
        cm.layer_L0s = list(cur["layer_L0s"])
    elif e == "gs":
        cur["gs_positions"] = [[p[0] + 11.0 * (i + 1), p[1] - 7.0 * i] for i, p in enumerate(cur["gs_positions"])]
        cm.gs_positions = [list(p) for p in cur["gs_positions"]]
    elif e == "gs_alt":
        cur["gs_altitudes"] = [(90e3 if a == 0 else 0) if i == 0 else a for i, a in enumerate(cur["gs_altitudes"])]
        cm.gs_altitudes = list(cur["gs_altitudes"])
    elif e == "wavelength":
        cur["wfs_wavelengths"] = [w * (1.5 if i == 0 else 1.0) for i, w in enumerate(cur["wfs_wavelengths"])]
        cm.wfs_wavelengths = list(cur["wfs_wavelengths"])
    elif e == "layers":
        cur["layer_altitudes"] = [h * 0.5 + 100.0 for h in cur["layer_altitudes"]]
        cm.layer_altitudes = list(cur["layer_altitudes"])
    elif e == "subap":
        cur["subap_diameters"] = [d * (0.8 if i == 0 else 1.0) for i, d in enumerate(cur["subap_diameters"])]
        cm.subap_diameters = list(cur["subap_diameters"])
    elif e == "threads":
        cm.threads = 2 if cm.threads == 1 else 1


def rebuild_body(ctx, cfg):
    """Object history: build, change an attribute of the object, build again.  Every build must equal the build of a
    fresh object constructed with the current parameters (no state carried over), and hence the oracle."""
    cl, _ = classes_of(cfg)
    ctx.case(cfg, nontrivial=True, classes=["edit_" + e for e in cfg["edits"]])
    cur = dict(cfg)
    first, cm = build(cur)
    for step, e in enumerate(cfg["edits"]):
        apply_edit(cur, cm, e, step)
        M = np.array(cm.make_covariance_matrix())
        fresh, _ = build(cur)
        if not np.array_equal(M.view(np.int32), fresh.view(np.int32)):
            from ..core import Violation
            raise Violation("after changing %r on the object (step %d of %r) the rebuilt matrix differs from a fresh object's: %d entries, max abs diff %.3g of scale %.3g" % (
                e, step, cfg["edits"], int(np.sum(M != fresh)), float(np.max(np.abs(M.astype(float) - fresh.astype(float)))), float(np.max(np.abs(fresh)))))
    compare(ctx, M, cur, what="slope covariance after a rebuild history")
    # the matrix the builder returned (and keeps as .covariance_matrix) is still that matrix after the object's other
    # method has used it
    if cur["n_wfs"] >= 2 and int(np.sum(cur["pupil_masks"][0])) > 0:
        ret = cm.make_covariance_matrix()
        before = np.array(ret, copy=True)
        import warnings
        with warnings.catch_warnings():
            warnings.simplefilter("ignore")
            try:
                cm.make_tomographic_reconstructor(svd_conditioning=1e-6)
            except np.linalg.LinAlgError:
                pass
        ctx.equal(np.asarray(ret), before, "the covariance matrix returned by the builder was modified by make_tomographic_reconstructor()", nan_ok=True)
        ctx.equal(np.asarray(cm.covariance_matrix), before, "the object's covariance matrix was modified by make_tomographic_reconstructor()", nan_ok=True)


def self_test():
    vk.self_test()
    # oracle sanity: a single WFS, single on-axis layer: matrix symmetric PSD and xx variance > 0
    cfg = {"n_wfs": 1, "pupil_masks": [np.ones((2, 2), dtype=int)], "telescope_diameter": 2.0, "subap_diameters": [1.0], "gs_altitudes": [0],
           "gs_positions": [[0, 0]], "wfs_wavelengths": [500e-9], "n_layers": 1, "layer_altitudes": [0.0], "layer_r0s": [0.2], "layer_L0s": [1e5]}
    C, _ = slopes.covariance(cfg)
    assert np.allclose(C, C.T) and np.linalg.eigvalsh(C)[0] > -1e-12 * np.max(C) and C[0, 0] > 0
    # slope variance of a d=1 sub-aperture ~ 6.88 (d/r0)^(5/3) (lambda/(2 pi d))^2 (finite outer scale reduces it a little)
    v = 6.88 * (1 / 0.2) ** (5 / 3.) * (500e-9 / (2 * math.pi)) ** 2
    assert 0.9 * v < C[0, 0] < v, (C[0, 0], v)


LAWS = [
    plain_law("realistic_order", big_cases, big_body, shards={"quick": 1, "thorough": 3}),
    given_law("rebuild_history", rebuild_cases(), rebuild_body, {"quick": 20, "thorough": 150}, shards={"quick": 4, "thorough": 16}),
    given_law("oracle_xl", geometry(max_wfs=6, max_n=10, max_layers=4), cov_body, {"quick": 0, "thorough": 25}, shards={"quick": 1, "thorough": 16}),
    given_law("oracle", geometry(), cov_body, {"quick": 70, "thorough": 600}, shards={"quick": 6, "thorough": 16}),
    given_law("metamorphic", meta_cases(), meta_body, {"quick": 35, "thorough": 250}, shards={"quick": 4, "thorough": 16}),
]
