"""C02 - tomographic reconstructor is the minimum-variance linear estimator."""
import math

import numpy as np
from hypothesis import strategies as st

from ..core import EPS32, given_law
from .. import gen
from . import c01

RULE = ("synthetic: PSD matrices built by construction from a latent factor model so that C_off,off = Q diag(sigma) Q^T "
        "has a prescribed spectrum (well-conditioned, geometric decay, exact rank deficiency) with a >= x4 gap around the "
        "cut-off rc*sigma_max; n_on 1..4 sub-apertures, n_off 1..10; rc in {0} u [1e-12, 0.5]; float64 and float32, integer-valued matrices also as int64/int32. "
        "end-to-end: C01 geometries pushed through CovarianceMatrix, cut-off placed in the widest spectral gap; duplicate "
        "class: WFS 0 made identical to an off-axis WFS. Oracles: normal equations on the retained subspace, nothing "
        "leaks through discarded modes, direct optimality J(R+Delta) - J(R) = tr(Delta C Delta^T) >= 0 for drawn "
        "perturbations, selector matrix for duplicates. Non-trivial = n_off > n_on, or rank-deficient, or rc > 0, or "
        "end-to-end. Distinct = canonical JSON."
        " Also: svd_conditioning above 1 (nothing retained: R == 0)."
        " Covariances in non-native byte order.")
ASSUMPTIONS = ["retained subspace = eigenvectors of C_off,off with eigenvalue > rc*sigma_max (numpy.linalg.pinv's documented rule); cases are constructed with a spectral gap so membership is unambiguous",
               "rank-deficient C_off,off is only combined with rc > 0 (the statement promises the rc = 0 equality for well-conditioned matrices)",
               "tolerances scale with dtype eps and the retained condition number"]


def SC():
    from aotools.turbulence import slopecovariance
    return slopecovariance


@st.composite
def synth_cases(draw):
    n_on = draw(st.integers(1, 4))
    n_off = draw(st.integers(1, 10))
    m = 2 * n_off
    spec = draw(st.sampled_from(["well", "decay", "deficient", "gap", "sparse"]))
    seed = draw(st.integers(0, 2**32 - 1))
    dtype = draw(st.sampled_from(["float64", "float64", "float32"]))
    # spectrum first, then the number of retained modes, then the cut-off placed in the gap below them
    if spec == "sparse":
        # exact zeros in C_on,off: some off-axis measurements are uncorrelated with the on-axis sensor but correlated
        # with other off-axis measurements (s_on = a, s_1 = a + b, s_2 = b ...)
        sig = np.ones(m)
        keep = m
        # loadings are multiples of 1/4, so 16 C is integer-valued: such matrices are also handed over with an integer dtype
        dtype = draw(st.sampled_from(["float64", "float32", "int64", "int32"]))
    elif spec == "well":
        sig = np.linspace(1.0, draw(st.sampled_from([0.5, 0.1, 0.01])), m)
        keep = m
    elif spec == "decay":
        sig = draw(st.sampled_from([0.5, 0.3, 0.2])) ** np.arange(m)
        keep = draw(st.integers(1, m))
    elif spec == "deficient":
        keep = draw(st.integers(1, max(1, m - 1)))
        sig = np.concatenate([np.linspace(1.0, 0.2, keep), np.zeros(m - keep)])
    else:
        keep = draw(st.integers(1, m))
        sig = np.concatenate([np.linspace(1.0, 0.4, keep), np.linspace(0.02, 0.001, m - keep)])
    if keep == m:
        rc = draw(st.sampled_from([0.0, 0.0, 1e-12])) if sig[-1] >= 1e-5 else float(sig[-1] / 4.0)
        if rc > 0:
            rc = min(rc, float(sig[-1] / 4.0))
    elif sig[keep] == 0:
        rc = draw(st.sampled_from([1e-9, 1e-6, 1e-3, float(sig[keep - 1] / 4.0)]))
    else:
        rc = float(math.sqrt(sig[keep - 1] * sig[keep]))
    if spec != "sparse" and draw(st.integers(0, 11)) == 0:
        # a conditioning above every singular value (relative to the largest): nothing is retained, the estimator is 0
        rc = draw(st.sampled_from([1.5, 2.0, 10.0, 1e3]))
    return {"n_on": n_on, "n_off": n_off, "sig": sig, "rc": rc, "seed": seed, "dtype": dtype, "spec": spec, "noise": draw(st.sampled_from([0.0, 0.3]))}


def build_synth(case):
    rng = gen.np_rng(case["seed"])
    m = 2 * case["n_off"]
    p = 2 * case["n_on"]
    Q, _ = np.linalg.qr(rng.normal(size=(m, m)))
    sig = np.asarray(case["sig"], dtype=np.float64)
    Moff = Q * np.sqrt(sig)[None, :]                        # C_off = Q diag(sig) Q^T
    Mon = rng.normal(size=(p, m))
    if case["spec"] == "sparse":
        # bidiagonal loadings on the latents (s_j = z_j + w_j z_{j+1}); the on-axis sensor sees only the first latents
        Moff = np.eye(m) + np.diag(rng.integers(1, 4, size=m - 1) / 4.0, 1) if m > 1 else np.eye(1)
        k_on = int(rng.integers(1, m)) if m > 1 else 1
        Mon = np.zeros((p, m))
        Mon[:, :k_on] = rng.integers(-4, 5, size=(p, k_on)) / 4.0
        if not Mon.any():
            Mon[0, 0] = 1.0
    E = case["noise"] * rng.normal(size=(p, p))
    if str(case["dtype"]).startswith("int"):
        Moff, Mon, E = 4.0 * Moff, 4.0 * Mon, 0.0 * E
    Coff = Moff @ Moff.T
    Coff = 0.5 * (Coff + Coff.T)
    Conoff = Mon @ Moff.T
    Conon = Mon @ Mon.T + E @ E.T
    C = np.block([[Conon, Conoff], [Conoff.T, Coff]])
    return C, Q, sig


def judge(ctx, R, C, n_on, rc, dtype, rng, label):
    """All oracles for one reconstructor R of covariance C (float64 copy of what the code saw)."""
    p = 2 * n_on
    Coff = C[p:, p:]
    Conoff = C[:p, p:]
    Conon = C[:p, :p]
    m = Coff.shape[0]
    R = np.asarray(R, dtype=np.float64)
    ctx.require(R.shape == (p, m), "%s: reconstructor shape %s, expected (%d,%d)" % (label, R.shape, p, m))
    ctx.require(bool(np.all(np.isfinite(R))), "%s: reconstructor not finite" % label)
    ev, V = np.linalg.eigh(0.5 * (Coff + Coff.T))
    smax = float(np.max(np.abs(ev)))
    cut = rc * smax
    keep = np.abs(ev) > cut
    # unambiguous membership (constructed); bail out otherwise
    near = (np.abs(ev) > cut / 1.25) & (np.abs(ev) < cut * 1.25) if cut > 0 else np.zeros_like(keep)
    if not keep.any() and rc >= 1.25 and not near.any():
        # nothing retained: on the (whole) discarded space R vanishes
        ctx.classes["nothing_retained"] += 1
        ctx.require(not np.any(R), "%s: svd_conditioning=%r discards every singular value (all are <= %r times the largest), yet R is not zero: max|R| = %.3g" % (label, rc, rc, float(np.max(np.abs(R)))))
        return True
    if near.any() or not keep.any():
        ctx.reject("cutoff_inside_spectrum")
        return False
    eps = EPS32 if dtype == "float32" else 2.3e-16
    smin = float(np.min(np.abs(ev[keep])))
    kappa = smax / smin
    P = V[:, keep] @ V[:, keep].T
    scale = float(np.linalg.norm(Conoff)) or 1.0
    tol = 30 * eps * kappa * m
    r1 = float(np.linalg.norm((R @ Coff - Conoff) @ P)) / scale
    ctx.residual(label + " normal equations on the retained subspace / tol", r1 / tol, 1.0)
    ctx.require(r1 <= tol, "%s: ||(R C_off,off - C_on,off) P|| = %.3g ||C_on,off|| > %.3g (retained %d of %d modes, cond %.3g, rc=%r)" % (label, r1, tol, int(keep.sum()), m, kappa, rc))
    if (~keep).any():
        leak = float(np.linalg.norm(R @ (np.eye(m) - P))) / (float(np.linalg.norm(R)) or 1.0)
        ctx.residual(label + " leak through discarded modes / tol", leak / tol, 1.0)
        ctx.require(leak <= tol, "%s: R does not vanish on the discarded modes: ||R (I-P)||/||R|| = %.3g" % (label, leak))
    if keep.all():
        r2 = float(np.linalg.norm(R @ Coff - Conoff)) / scale
        ctx.require(r2 <= tol, "%s: full normal equations violated: %.3g > %.3g" % (label, r2, tol))
    # direct optimality
    def J(M):
        return float(np.trace(Conon - M @ Conoff.T - Conoff @ M.T + M @ Coff @ M.T))
    JR = J(R)
    jscale = float(np.trace(Conon)) or 1.0
    for amp in (1.0, 1e-2):
        D = amp * rng.normal(size=R.shape) * (float(np.linalg.norm(R)) / math.sqrt(R.size) + 1e-3)
        D = D @ P
        gain = J(R + D) - JR
        quad = float(np.trace(D @ Coff @ D.T))
        jt = 300 * eps * kappa * m * (jscale + quad)
        ctx.require(gain >= -jt, "%s: a perturbed reconstructor has a SMALLER residual variance: J(R+D)-J(R) = %.3g" % (label, gain))
        ctx.require(abs(gain - quad) <= jt + 1e-9 * quad, "%s: J(R+D)-J(R) = %.6g but tr(D C D^T) = %.6g (cross term does not vanish: normal equations fail)" % (label, gain, quad))
    ctx.require(JR >= -3000 * eps * kappa * m * jscale, "%s: negative residual variance %.3g" % (label, JR))
    return True


def synth_body(ctx, case):
    C, Q, sig = build_synth(case)
    n_on, rc, dtype = case["n_on"], case["rc"], case["dtype"]
    rank_def = bool(np.any(sig == 0))
    ctx.case(case, nontrivial=case["n_off"] > n_on or rank_def or rc > 0, classes=[case["spec"], dtype, "rc0" if rc == 0 else "rc_pos", "rank_deficient" if rank_def else "full_rank"])
    Cin = C.astype(dtype)
    if dtype in ("float64", "float32") and case["seed"] % 5 == 0:
        # the same numbers in non-native byte order (a covariance read from a FITS file or with numpy.fromfile)
        Cin = Cin.astype(Cin.dtype.newbyteorder())
        ctx.classes["non_native_byte_order"] += 1
    ctx.require(bool(np.all(Cin == C)) or not dtype.startswith("int"), "harness: integer covariance not exactly representable")
    C0 = Cin.copy()
    kw = {} if (rc == 0 and case["seed"] % 2 == 0) else {"svd_conditioning": rc}
    R = SC().create_tomographic_covariance_reconstructor(Cin, n_on, **kw)
    ctx.equal(Cin, C0, "create_tomographic_covariance_reconstructor modified the covariance matrix")
    judge(ctx, R, Cin.astype(np.float64), n_on, rc, dtype, gen.np_rng(case["seed"] + 1), "synthetic")


# ------------------------------------------------------------------ end to end

@st.composite
def e2e_cases(draw):
    cfg = draw(c01.geometry(max_wfs=4, max_n=4, max_layers=3))
    if cfg["n_wfs"] < 2:
        # need at least one off-axis sensor: duplicate the only one in another direction
        for key in ("pupil_masks", "mask_kinds", "subap_diameters", "gs_altitudes", "wfs_wavelengths"):
            cfg[key] = cfg[key] * 2
        cfg["gs_positions"] = [cfg["gs_positions"][0], [cfg["gs_positions"][0][0] + 25.0, cfg["gs_positions"][0][1] - 15.0]]
        cfg["n_wfs"] = 2
    cfg["gap_pick"] = draw(st.integers(0, 5))
    cfg["threads"] = draw(st.sampled_from([1, 1, 2, 3]))
    cfg["duplicate"] = draw(st.booleans())
    cfg["dup_of"] = draw(st.integers(1, 3))
    cfg["seed"] = draw(st.integers(0, 2**31))
    return cfg


def e2e_body(ctx, cfg):
    cfg = dict(cfg)
    dup = cfg["duplicate"]
    if dup:
        k = 1 + (cfg["dup_of"] - 1) % (cfg["n_wfs"] - 1)
        for key in ("pupil_masks", "mask_kinds", "subap_diameters", "gs_altitudes", "wfs_wavelengths", "gs_positions"):
            lst = list(cfg[key])
            lst[0] = lst[k]
            cfg[key] = lst
    cl, _ = c01.classes_of(cfg)
    ctx.case(cfg, nontrivial=True, classes=cl + ["duplicate" if dup else "generic", "threads%d" % cfg.get("threads", 1)])
    C32, cm = c01.build(cfg, threads=cfg.get("threads", 1))
    C = C32.astype(np.float64)
    n_on = int(np.sum(np.array(cfg["pupil_masks"][0]) == 1))
    p = 2 * n_on
    Coff = C[p:, p:]
    ev = np.sort(np.abs(np.linalg.eigvalsh(0.5 * (Coff + Coff.T))))[::-1]
    smax = ev[0]
    # put the cut-off in a wide gap of the spectrum (construction, not rejection)
    cands = []
    for i in range(len(ev) - 1):
        if ev[i + 1] > 0 and ev[i] / ev[i + 1] >= 6.0 and ev[i] / smax > 3e-5:
            cands.append(math.sqrt(ev[i] * ev[i + 1]) / smax)
    if ev[-1] / smax > 3e-4:
        cands.append(ev[-1] / smax / 3.0)
    if not cands:
        cands = [0.3] if len(ev) > 1 and ev[0] / ev[1] >= 6 else []
    if not cands:
        ctx.reject("no_spectral_gap")
        return
    rc = float(cands[cfg["gap_pick"] % len(cands)])
    R = cm.make_tomographic_reconstructor(svd_conditioning=rc)
    R2 = SC().create_tomographic_covariance_reconstructor(C32, n_on, rc)
    ctx.equal(np.asarray(R2), np.asarray(R), "method and function reconstructors differ")
    ok = judge(ctx, R, C, n_on, rc, "float32", gen.np_rng(cfg["seed"]), "end-to-end")
    if dup and ok:
        # on-axis sensor duplicates off-axis sensor k: R must reproduce that sensor's slopes and ignore the others
        nsub = [int(np.sum(np.array(m) == 1)) for m in cfg["pupil_masks"]]
        off = np.concatenate([[0], np.cumsum([2 * n for n in nsub[1:]])])
        sel = np.zeros((p, Coff.shape[0]))
        sel[:, off[k - 1]:off[k - 1] + p] = np.eye(p)
        evk = np.linalg.eigvalsh(0.5 * (Coff + Coff.T))
        cond = float(np.max(np.abs(evk)) / max(np.min(np.abs(evk)), 1e-300))
        if cond <= 2e4:
            R0 = np.asarray(cm.make_tomographic_reconstructor(svd_conditioning=0), dtype=np.float64)
            err = float(np.max(np.abs(R0 - sel)))
            ctx.residual("duplicate-sensor selector error", err, 1e-2)
            ctx.classes["duplicate_selector_judged"] += 1
            ctx.require(err <= 1e-2, "on-axis sensor duplicates off-axis sensor %d but R differs from the selector by %.3g (cond %.3g)" % (k, err, cond))
        else:
            ctx.classes["duplicate_ill_conditioned_not_judged_at_rc0"] += 1
            # with conditioning, R must still reproduce the duplicate's slopes on the retained subspace: R C_off = C_on,off is already asserted


# ------------------------------------------------------------------ histories on one object: rebuild, then reconstruct again

@st.composite
def rebuild_cases(draw):
    cfg = draw(e2e_cases())
    cfg["edits"] = draw(st.lists(st.sampled_from(["r0", "L0", "gs", "wavelength", "layers", "none"]), min_size=1, max_size=3))
    cfg["rc"] = draw(st.sampled_from([0.0, 1e-3, 1e-2]))
    return cfg


def rebuild_body(ctx, cfg):
    """The reconstructor must belong to the covariance matrix the object holds *now*: build, reconstruct, change a
    parameter of the object, rebuild, reconstruct with the same conditioning."""
    sc = SC()
    cl, _ = c01.classes_of(cfg)
    ctx.case(cfg, nontrivial=True, classes=["edit_" + e for e in cfg["edits"]])
    C32, cm = c01.build(cfg)
    n_on = int(np.sum(np.array(cfg["pupil_masks"][0]) == 1))
    rc = cfg["rc"]
    cur = dict(cfg)
    for step, e in enumerate(["first"] + list(cfg["edits"])):
        if e == "r0":
            cur["layer_r0s"] = [r * (1.7 if i % 2 == 0 else 0.6) for i, r in enumerate(cur["layer_r0s"])]
            cm.layer_r0s = list(cur["layer_r0s"])
        elif e == "L0":
            cur["layer_L0s"] = [x * 2.0 for x in cur["layer_L0s"]]
            cm.layer_L0s = list(cur["layer_L0s"])
        elif e == "gs":
            cur["gs_positions"] = [[p[0] + 11.0 * (i + 1), p[1] - 7.0 * i] for i, p in enumerate(cur["gs_positions"])]
            cm.gs_positions = [list(p) for p in cur["gs_positions"]]
        elif e == "wavelength":
            cur["wfs_wavelengths"] = [w * (1.5 if i == 0 else 1.0) for i, w in enumerate(cur["wfs_wavelengths"])]
            cm.wfs_wavelengths = list(cur["wfs_wavelengths"])
        elif e == "layers":
            cur["layer_altitudes"] = [h * 0.5 for h in cur["layer_altitudes"]]
            cm.layer_altitudes = list(cur["layer_altitudes"])
        if e != "first":
            M = np.array(cm.make_covariance_matrix())
            fresh, _ = c01.build(cur)
            ctx.equal(M, fresh, "rebuilt covariance matrix (after changing %s on the object) differs from a fresh object's" % e)
        else:
            M = C32
        R = np.asarray(cm.make_tomographic_reconstructor(svd_conditioning=rc))
        want = np.asarray(sc.create_tomographic_covariance_reconstructor(M, n_on, rc))
        ctx.require(R.shape == want.shape and np.array_equal(R, want, equal_nan=True), "step %d (%s): make_tomographic_reconstructor does not return the reconstructor of the object's current covariance matrix (max diff %.3g)" % (
            step, e, float(np.max(np.abs(R - want))) if R.shape == want.shape else float("nan")))
        R_again = np.asarray(cm.make_tomographic_reconstructor(svd_conditioning=rc))
        ctx.require(np.array_equal(R_again, R, equal_nan=True), "make_tomographic_reconstructor not repeatable")


LAWS = [
    given_law("rebuild_history", rebuild_cases(), rebuild_body, {"quick": 25, "thorough": 150}, shards={"quick": 4, "thorough": 16}),
    given_law("synthetic", synth_cases(), synth_body, {"quick": 400, "thorough": 5000}, shards={"quick": 3, "thorough": 16}),
    given_law("end_to_end", e2e_cases(), e2e_body, {"quick": 40, "thorough": 300}, shards={"quick": 6, "thorough": 16}),
]


def self_test():
    c01.self_test()
