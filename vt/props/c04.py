"""C04 - infinite phase screen rows follow the exact conditional von Karman law."""
import math
import warnings

import numpy as np
from hypothesis import strategies as st

from ..core import EPS32, given_law
from .. import gen
from ..oracles import vk
from ..scripted_rng import Scripted

RULE = ("von Karman variant: nx 2..40 odd and even, n_columns 1..4, pixel scale [0.01,1], r0 [0.05,1], L0/pixel in [5,1e7]; "
        "Fried variant: requested nx 2..40 (internal 2^n+1, requested != internal), stencil_length_factor 1..4. The effective "
        "linear map of a row step is recovered black-box through the public behaviour with an injected scripted Generator "
        "(unit impulse in every working pixel with zero innovation -> column of M; zero screen with innovation e_k -> "
        "column of B) and compared with an independent float64 von Karman covariance at the true pixel positions. "
        "Construction failures with the documented LinAlgError are rejected by construction and counted. Non-trivial: "
        "VK n_columns>=2 and nx>=4; Fried requested != internal size or stencil_length_factor>=2. Distinct = canonical JSON."
        " Also: before the judged screen a sibling sharing derived quantities (same L0/r0, r0 only, L0 only, all scaled) is built in the same process; screens handed out by .scrn/add_row() are held un-copied and must survive later rows; an unseeded screen's innovations must differ from row to row with NumPy's global generator reset before each."
        " Sizes and counts also as NumPy integers of any width and signedness.")
ASSUMPTIONS = ["pixel (i, j) of the working array sits at (i, j) * pixel_scale, the new row at row -1",
               "tolerance = 8 eps cond(Cov(Z,Z)) (1+|A|_inf) relative to B(0): what a backward-stable explicit inverse in double precision leaves (measured 0.15 in these units); L0/pixel up to 1e7",
               "the private attribute _scrn is assigned to set screen content (only private name used)"]


def IPS():
    from aotools.turbulence import infinitephasescreen
    return infinitephasescreen


def make(kind, p, rng):
    ips = IPS()
    with warnings.catch_warnings():
        warnings.simplefilter("ignore")
        # sizes and counts as the caller holds them (Python ints, or NumPy integers of any width read from a table)
        T = (lambda v: getattr(np, p["size_as"])(v)) if p.get("size_as") else (lambda v: v)
        if kind == "vk":
            return ips.PhaseScreenVonKarman(T(p["nx"]), p["ps"], p["r0"], p["L0"], random_seed=rng, n_columns=T(p["ncol"]))
        return ips.PhaseScreenKolmogorov(T(p["nx"]), p["ps"], p["r0"], p["L0"], random_seed=rng, stencil_length_factor=T(p["factor"]))


def refused(ctx, p):
    """The code documents one refusal (LinAlgError: 'try with a larger pixel scale or smaller L0') for outer scales it cannot
    handle in double precision - of the order of 1e9 pixels.  It is a rejection by construction only there: parameters
    with L0 up to 1e6 pixels (the customary "Kolmogorov" outer scale of 1e6 m on a 1 m pixel) must construct."""
    ratio = float(p["L0"]) / float(p["ps"])
    ctx.require(ratio > 1e6, "construction of a %s screen refused with LinAlgError for ordinary parameters: nx=%r, pixel=%r, r0=%r, L0=%r (L0/pixel = %.3g)" % (p.get("kind", "vk"), p["nx"], p["ps"], p["r0"], p["L0"], ratio))
    ctx.reject("documented_LinAlgError_on_construction")


def sibling_first(ctx, kind, p):
    """An earlier screen of the same process that shares derived quantities with the one about to be built (the same
    L0/r0, the same geometry in pixels, the same dimensionless numbers): whatever it left behind must not reach it."""
    from scipy import linalg
    if not p.get("sib"):
        return
    q = dict(p)
    for f in p["sib"].split(","):
        q[f] = p[f] * p["sibk"]
    try:
        sib = make(kind, q, Scripted())
        del sib
        ctx.classes["sibling_first_" + p["sib"]] += 1
    except (linalg.LinAlgError, np.linalg.LinAlgError):
        pass


def recover_maps(scr, rng, only_rows=None):
    """Effective M (nx x working pixels) and B (nx x nx) of one add_row step, through public behaviour."""
    shape = scr._scrn.shape
    nxi = shape[1]
    rows = range(shape[0]) if only_rows is None else only_rows
    M = np.zeros((nxi, shape[0] * shape[1]))
    for i in rows:
        for j in range(shape[1]):
            z = np.zeros(shape)
            z[i, j] = 1.0
            scr._scrn = z
            rng.clear()
            scr.add_row()
            M[:, i * shape[1] + j] = scr._scrn[0, :]
    B = np.zeros((nxi, nxi))
    for k in range(nxi):
        scr._scrn = np.zeros(shape)
        rng.clear()
        e = np.zeros(nxi)
        e[k] = 1.0
        rng.feed(e)
        scr.add_row()
        B[:, k] = scr._scrn[0, :]
    return M, B


def sigma(pos_a, pos_b, r0, L0):
    sep = np.sqrt(((pos_a[:, None, :] - pos_b[None, :, :]) ** 2).sum(-1))
    return vk.B(sep, r0, L0)


# outer scale in pixels, from a fifth of a pixel (an outer scale below the sampling interval is valid, just unusual): the code imposes no limit other than refusing (LinAlgError) what it cannot factorise
RATIO = st.one_of(gen.logfloat(0.2, 5.0), gen.logfloat(5.0, 1000.0), gen.logfloat(1000.0, 1e5), gen.logfloat(1e5, 1e7))      # 1e6 m is the customary "Kolmogorov" outer scale


@st.composite
def vk_cases(draw, nmax=28):
    nx = draw(st.integers(2, nmax))
    ps = draw(gen.logfloat(0.01, 1.0))
    if draw(st.integers(0, 5)) == 0:
        ps = draw(st.sampled_from([1, 2]))                       # a pixel scale given as an integer is a valid pixel scale
    return {"kind": "vk", "nx": nx, "ncol": draw(st.integers(1, min(4, nx))), "ps": ps, "r0": draw(st.one_of(gen.logfloat(0.05, 1.0), gen.logfloat(1e-3, 100.0))),
            "L0": ps * draw(RATIO), "seed": draw(st.integers(0, 2**31)), "c": draw(st.floats(-50, 50)),
            "sib": draw(st.sampled_from([None, None, "r0,L0", "r0", "L0", "ps,r0,L0"])), "sibk": draw(st.sampled_from([2.0, 0.5, 4.0, 1.25])),
            "size_as": draw(st.sampled_from([None, None, None, "int64", "uint8", "uint16", "int8", "uint32"])),
            "retune": draw(st.sampled_from([None, None, None, (2.0, 1.0), (1.0, 0.5), (0.5, 2.0)]))}


@st.composite
def fried_cases(draw, nmax=20):
    nx = draw(st.integers(2, nmax))
    ps = draw(gen.logfloat(0.01, 1.0))
    if draw(st.integers(0, 5)) == 0:
        ps = draw(st.sampled_from([1, 2]))
    return {"kind": "fried", "nx": nx, "factor": draw(st.integers(1, 4)), "ps": ps, "r0": draw(st.one_of(gen.logfloat(0.05, 1.0), gen.logfloat(1e-3, 100.0))),
            "L0": ps * draw(RATIO), "seed": draw(st.integers(0, 2**31)), "c": draw(st.floats(-50, 50)),
            "sib": draw(st.sampled_from([None, None, "r0,L0", "r0", "L0", "ps,r0,L0"])), "sibk": draw(st.sampled_from([2.0, 0.5, 4.0, 1.25])),
            "size_as": draw(st.sampled_from([None, None, None, "int64", "uint8", "uint16", "int8", "uint32"])),
            "retune": draw(st.sampled_from([None, None, None, (2.0, 1.0), (1.0, 0.5), (0.5, 2.0)]))}


def body(ctx, p):
    from scipy import linalg
    kind = p["kind"]
    rng = Scripted()
    sibling_first(ctx, kind, p)
    try:
        if p.get("retune"):
            # seeing / outer scale retuned on ONE existing screen, geometry unchanged: the public building blocks are re-run
            # (make_covmats -> makeAMatrix -> makeBMatrix) and the rows produced from then on follow the NEW parameters
            kr, kl = p["retune"]
            scr = make(kind, dict(p, r0=p["r0"] * kr, L0=p["L0"] * kl), rng)
            scr.r0, scr.L0 = p["r0"], p["L0"]
            with warnings.catch_warnings():
                warnings.simplefilter("ignore")
                scr.make_covmats()
                scr.makeAMatrix()
                scr.makeBMatrix()
            ctx.classes["retuned_on_one_object"] += 1
        else:
            scr = make(kind, p, rng)
    except (linalg.LinAlgError, np.linalg.LinAlgError) as e:
        refused(ctx, p)
        return
    ips = IPS()
    nxi = scr._scrn.shape[1]
    if kind == "vk":
        nt = p["ncol"] >= 2 and p["nx"] >= 4
        cl = ["vk", "ncol%d" % p["ncol"], "odd" if p["nx"] % 2 else "even"]
    else:
        nt = nxi != p["nx"] or p["factor"] >= 2
        cl = ["fried", "factor%d" % p["factor"], "requested_ne_internal" if nxi != p["nx"] else "requested_eq_internal", "internal%d" % nxi]
    ctx.case(p, nontrivial=nt, classes=cl)
    ctx.require(scr.scrn.shape == (p["nx"], p["nx"]), "exposed screen shape %s, requested %d" % (scr.scrn.shape, p["nx"]))
    W = scr._scrn.shape
    M, B = recover_maps(scr, rng)
    ps, r0, L0 = float(p["ps"]), p["r0"], p["L0"]
    if isinstance(p["ps"], int):
        ctx.classes["integer_pixel_scale"] += 1
    B0 = float(vk.B(0.0, r0, L0))
    supp = np.nonzero(np.any(M != 0, axis=0))[0]
    pix = np.stack([supp // W[1], supp % W[1]], axis=1)
    Xpos = np.stack([-np.ones(nxi), np.arange(nxi)], axis=1) * ps
    code_st = [int(a) * W[1] + int(b) for a, b in scr.stencil_coords]
    if kind == "vk":
        want = np.arange(p["ncol"] * W[1])
        # the new row may depend on nothing but the first n_columns rows (a far pixel may legitimately get weight exactly 0
        # when its float32 covariance underflows, so the support can be smaller, never larger)
        ctx.require(set(supp.tolist()) <= set(want.tolist()), "von Karman stencil: the new row depends on working pixels %r..., outside the first %d rows" % (pix[:6].tolist(), p["ncol"]))
        ctx.require(len(supp) >= min(len(want), 1), "von Karman stencil: the new row depends on no pixel at all")
        if len(supp) < len(want):
            ctx.classes["stencil_pixels_with_exactly_zero_weight"] += 1
        S, A = want, M[:, want]
    else:
        ref = 1 * W[1] + 1
        # constants are preserved: rows of the effective map sum to one (reference handling)
        ctx.close(M.sum(axis=1), np.ones(nxi), 1e-9, "Fried: effective weights of every new pixel sum to 1 (reference pixel handling)", scale=1.0, name="fried rows sum to one")
        ctx.require(set(supp.tolist()) <= set(code_st) | {ref}, "Fried: the new row depends on pixels %r that are neither in the stencil nor the reference pixel" % sorted(set(supp.tolist()) - set(code_st) - {ref})[:6])
        if ref in code_st:
            ctx.classes["reference_pixel_inside_stencil"] += 1
            S = np.array(sorted(set(code_st)))
            A = np.asarray(scr.A_mat)[:, np.argsort(code_st)]
        else:
            S = np.array(sorted(set(code_st)))
            A = M[:, S]
            if len(set(supp.tolist()) - {ref}) < len(S):
                ctx.classes["stencil_pixels_with_exactly_zero_weight"] += 1
        ctx.require(len(S) >= 1, "Fried: empty stencil")
    Spos = np.stack([S // W[1], S % W[1]], axis=1).astype(float) * ps
    Szz = sigma(Spos, Spos, r0, L0)
    Sxz = sigma(Xpos, Spos, r0, L0)
    Sxx = sigma(Xpos, Xpos, r0, L0)
    amp = 1.0 + float(np.max(np.sum(np.abs(A), axis=1)))
    # the code obtains A from an explicit inverse of Cov(Z,Z) in double precision: a backward-stable solve leaves a residual
    # of a few eps * cond(Cov(Z,Z)) relative to the entries of Cov (which are of size B(0)); that is "equal to rounding" here
    cond = float(np.linalg.cond(Szz))
    unit = 2.3e-16 * cond + 1e-14
    KTOL = 8.0
    e1 = float(np.max(np.abs(A @ Szz - Sxz))) / B0
    ctx.residual("A Cov(Z,Z) - Cov(X,Z) over B(0), per unit eps cond(Czz) (1+|A|_inf)", e1 / (amp * unit), KTOL)
    ctx.require(e1 <= KTOL * unit * amp, "A Cov(Z,Z) != Cov(X,Z): max error %.3g B(0) (tolerance %.3g = %g eps cond(Czz) (1+|A|), cond %.3g); %s nx=%d (internal %d) pixel=%.3g L0=%.3g" % (
        e1, KTOL * unit * amp, KTOL, cond, kind, p["nx"], nxi, ps, L0))
    e2 = float(np.max(np.abs(A @ Szz @ A.T + B @ B.T - Sxx))) / B0
    ctx.residual("A Czz A^T + B B^T - Cxx over B(0), per unit eps cond(Czz) (1+|A|_inf)^2", e2 / (amp ** 2 * unit), KTOL)
    ctx.require(e2 <= KTOL * unit * amp * amp, "A Cov(Z,Z) A^T + B B^T != Cov(X,X): max error %.3g B(0) (tolerance %.3g, cond %.3g); %s nx=%d (internal %d) pixel=%.3g L0=%.3g" % (
        e2, KTOL * unit * amp * amp, cond, kind, p["nx"], nxi, ps, L0))
    ctx.classes["cond(Czz) 1e%d" % int(math.floor(math.log10(cond)))] += 1
    # the first identity says A is the minimum-variance predictor of X from Z.  The excess residual variance of the code's A
    # over the optimum is quadratic in its error, so it stays at rounding level even where cond(Czz) is 1e9, while a predictor
    # built from a truncated / regularised inverse loses tens of per cent.  The optimum (Schur complement) comes from a Cholesky
    # factorisation, which is backward stable at the scale of B(0).
    try:
        cf = linalg.cho_factor(Szz)
        Sch = Sxx - Sxz @ linalg.cho_solve(cf, Sxz.T)
        Jopt = float(np.trace(Sch))
    except (linalg.LinAlgError, np.linalg.LinAlgError):
        Jopt = -1.0
    if Jopt > 0:
        JA = float(np.trace(Sxx - A @ Sxz.T - Sxz @ A.T + A @ Szz @ A.T))
        noise = 64 * 2.3e-16 * amp * amp * B0 * nxi / Jopt
        ex = JA / Jopt - 1.0
        ctx.residual("excess residual variance J(A)/J_opt - 1 over (1e-6 + evaluation noise)", abs(ex) / (1e-6 + noise), 1.0)
        ctx.require(ex <= 1e-6 + noise, "A is not the minimum-variance predictor: E|X - A Z|^2 exceeds the conditional variance by %.3g (relative; cond(Czz) %.3g, %s nx=%d pixel=%.3g L0=%.3g)" % (ex, cond, kind, p["nx"], ps, L0))
        ctx.require(ex >= -(1e-6 + noise), "harness: residual variance below the optimum by %.3g" % ex)
        # the innovation covariance B B^T must be the conditional covariance Cov(X|Z) (the Schur complement): the two
        # identities together say exactly that.  It is (pixel/L0)^(5/3) of the entries of Cov, so it is judged on its own
        # scale: 0.1 % of it, or what a backward-stable evaluation in double precision can deliver, whichever is larger.
        Smax = float(np.max(np.abs(Sch)))
        eB = float(np.max(np.abs(B @ B.T - Sch))) / Smax
        tolB = 1e-3 + 256 * 2.3e-16 * amp * amp * B0 / Smax
        ctx.residual("B B^T - Cov(X|Z) over max|Cov(X|Z)|, in units of its tolerance", eB / tolB, 1.0)
        ctx.require(eB <= tolB, "B B^T is not the conditional covariance of the new row: max error %.3g of max|Cov(X|Z)| (tolerance %.3g; innovation variance / B(0) = %.3g, cond(Czz) %.3g, %s nx=%d pixel=%.3g L0=%.3g)" % (
            eB, tolB, Smax / B0, cond, kind, p["nx"], ps, L0))
    else:
        ctx.classes["oracle_cholesky_failed"] += 1
    # cross-check with the attributes the anchor mentions
    if kind == "vk" or ref not in code_st:
        order = np.argsort(code_st)
        ctx.require(sorted(code_st) == S.tolist(), "stencil_coords %r differ from the stencil the new row is built from" % sorted(code_st)[:8])
        ctx.close(np.asarray(scr.A_mat)[:, order], A, 1e-12, "A_mat attribute equals the recovered map", scale=float(np.max(np.abs(A))) or 1.0, name="A_mat cross-check")
    ctx.close(np.asarray(scr.B_mat), B, 1e-12, "B_mat attribute equals the recovered innovation map", scale=float(np.max(np.abs(B))) or 1.0, name="B_mat cross-check")
    # metamorphic: adding a constant to the whole screen adds exactly that constant to the new row (Fried); affine law for both
    r2 = gen.np_rng(p["seed"])
    z = r2.normal(size=W) * math.sqrt(B0)
    b = r2.normal(size=nxi)
    def step(content):
        scr._scrn = content.copy()
        rng.clear()
        rng.feed(b)
        scr.add_row()
        return scr._scrn[0, :].copy()
    row = step(z)
    ctx.close(row, M @ z.ravel() + B @ b, 1e-10, "new row == M z + B b (affine in stencil values and innovations)", scale=float(np.max(np.abs(row))) or 1.0, name="affine law")
    if kind == "fried":
        c = p["c"]
        ctx.close(step(z + c), row + c, 1e-10, "Fried: screen + c gives new row + c", scale=abs(c) + float(np.max(np.abs(row))), name="constant shift")
    ctx.require(rng.requests[-1] in (nxi, (nxi,)), "add_row drew %r normals, expected %d" % (rng.requests[-1], nxi))


# ------------------------------------------------------------------ which random numbers drive the rows (int seeds)

@st.composite
def stream_cases(draw):
    kind = draw(st.sampled_from(["vk", "fried"]))
    p = {"kind": kind, "nx": draw(st.integers(2, 9)), "ps": draw(st.sampled_from([0.1, 0.25, 1.0])), "r0": draw(st.sampled_from([0.1, 0.2, 0.5])),
         "L0": draw(st.sampled_from([5.0, 25.0, 100.0])), "seed": draw(st.integers(0, 2**40)), "rows": draw(st.integers(1, 6)), "c": 0.0}
    if kind == "vk":
        p["ncol"] = draw(st.integers(1, min(2, p["nx"])))
    else:
        p["factor"] = draw(st.integers(1, 2))
    return p


def stream_body(ctx, p):
    """X = A Z + B b with b a fresh unit-normal vector: with an integer seed s the k-th new row must be driven by draws
    of default_rng(s) that were not used before (after the 2 N^2 draws of the initial screen, nx per row, in order)."""
    from scipy import linalg
    try:
        scr = c_make_int(p)
    except (linalg.LinAlgError, np.linalg.LinAlgError):
        refused(ctx, p)
        return
    ctx.case(p, nontrivial=p["rows"] >= 2, classes=[p["kind"]])
    W = scr._scrn.shape
    nxi, ns = W[1], W[0]
    twin_rng = Scripted()
    twin = make(p["kind"], p, twin_rng)
    M, B = recover_maps(twin, twin_rng)
    g = np.random.default_rng(p["seed"])
    g.normal(size=(ns, ns))
    g.normal(size=(ns, ns))                               # the initial FFT screen's two (N, N) blocks, N = stencil length
    frames = []
    for k in range(p["rows"]):
        before = np.array(scr._scrn, copy=True)
        old = scr.scrn                                       # the "old phase" as the user holds it
        old0 = np.array(old, copy=True)
        b = g.normal(0, 1, size=nxi)
        new = scr.add_row()
        frames.append((new, np.array(new, copy=True)))
        # "the joint statistics of old and new phase": the old phase is still the old phase once the new row exists
        ctx.equal(old, old0, "the screen obtained from .scrn before add_row() was rewritten by add_row() (row %d)" % k)
        for j, (f, f0) in enumerate(frames):
            ctx.equal(f, f0, "the screen returned by add_row() number %d was rewritten by add_row() number %d" % (j, k))
        want = M @ before.ravel() + B @ b
        ctx.close(scr._scrn[0], want, 1e-10, "row %d of an int-seeded screen is driven by the next unused draws of default_rng(seed)" % k, scale=float(np.max(np.abs(want))) or 1.0, name="int-seed stream")
    # an unseeded screen: b is a fresh vector for every row whatever the program does with NumPy's global generator in between
    q = dict(p, seed=None)
    un = c_make_int(q)
    st0 = np.random.get_state()
    try:
        inn = []
        for k in range(max(2, p["rows"])):
            np.random.seed(20240917)
            np.random.normal(size=5)
            before = np.array(un._scrn, copy=True)
            un.add_row()
            inn.append(np.array(un._scrn[0]) - M @ before.ravel())          # = B b_k
    finally:
        np.random.set_state(st0)
    sc_ = float(np.max(np.abs(B))) or 1.0
    for i in range(len(inn)):
        for j in range(i):
            ctx.require(float(np.max(np.abs(inn[i] - inn[j]))) > 1e-9 * sc_, "unseeded %s screen: rows %d and %d were driven by the same innovation vector b (NumPy's global generator had been put in the same state before each add_row)" % (p["kind"], j, i))


def c_make_int(p):
    ips = IPS()
    with warnings.catch_warnings():
        warnings.simplefilter("ignore")
        if p["kind"] == "vk":
            return ips.PhaseScreenVonKarman(p["nx"], p["ps"], p["r0"], p["L0"], random_seed=p["seed"], n_columns=p["ncol"])
        return ips.PhaseScreenKolmogorov(p["nx"], p["ps"], p["r0"], p["L0"], random_seed=p["seed"], stencil_length_factor=p["factor"])


def self_test():
    vk.self_test()


LAWS = [
    given_law("int_seed_stream", stream_cases(), stream_body, {"quick": 15, "thorough": 100}, shards={"quick": 3, "thorough": 16}),
    given_law("von_karman_xl", vk_cases(72), body, {"quick": 0, "thorough": 5}, shards={"quick": 1, "thorough": 16}),
    given_law("fried_xl", fried_cases(100), body, {"quick": 0, "thorough": 2}, shards={"quick": 1, "thorough": 16}),
    given_law("von_karman", vk_cases(28), body, {"quick": 30, "thorough": 200}, shards={"quick": 5, "thorough": 16}),
    given_law("von_karman_large", vk_cases(40), body, {"quick": 5, "thorough": 40}, shards={"quick": 3, "thorough": 16}),
    given_law("fried", fried_cases(20), body, {"quick": 16, "thorough": 120}, shards={"quick": 5, "thorough": 16}),
    given_law("fried_large", fried_cases(40), body, {"quick": 3, "thorough": 20}, shards={"quick": 3, "thorough": 16}),
]
