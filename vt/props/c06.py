"""C06 - seeded screens are reproducible and instances are isolated."""
import random
import warnings

import numpy as np
from hypothesis import strategies as st
from hypothesis.stateful import RuleBasedStateMachine, initialize, rule

from ..core import machine_law, given_law, plain_law, Violation, HarnessError
from .. import gen

RULE = ("histories over a pool of (kind, parameters, seed) descriptors, kind in {ft, ft_sh, von Karman infinite, Fried "
        "infinite}, seeds incl. 0, 2^32-1 and big ints: create instances, add rows to any of them, reproduce a descriptor "
        "and catch up to the same row count, perturb NumPy's and Python's global random state, call unrelated library "
        "functions (optimal_grouping consumes the global RNG, unseeded screens, pupil masks, transforms). The first "
        "trajectory of a descriptor is the reference; every later reproduction must be bit-identical at every row count; "
        "seeded operations must leave numpy's global state untouched; different seeds give different screens; unseeded "
        "calls differ. Non-trivial history: a reproduction separated from its reference by >=1 global-RNG perturbation and "
        ">=1 operation on another instance. Distinct = canonical JSON."
        " Also: pristine interpreters run under different string-hash salts; unseeded screens from 4-16 workers forked after import are pairwise distinct; unseeded calls differ with the global state reset before each."
        " Law threads: seeded FFT screens (N 256, 512) from four threads at once vs one after the other.")
ASSUMPTIONS = ["bit-identical = numpy.array_equal on float64 arrays (no tolerance)",
               "collision of two different seeds / two unseeded calls is treated as impossible (asserted as inequality)"]


def T():
    from aotools.turbulence import phasescreen, infinitephasescreen, profile_compression
    import aotools
    return phasescreen, infinitephasescreen, profile_compression, aotools


SEEDS = [0, 1, 2, 7, 2**32 - 1, 2**32, 12345678901234567890, 3141592653]


@st.composite
def descriptor(draw):
    kind = draw(st.sampled_from(["ft", "ft_sh", "vk", "fried"]))
    d = {"kind": kind, "seed": draw(st.sampled_from(SEEDS)), "seed_type": draw(st.sampled_from(["int", "int", "np_int64", "np_uint64", "np_intc", "seed_sequence", "int_list"])), "r0": draw(st.sampled_from([0.1, 0.16, 0.5])), "L0": draw(st.sampled_from([10.0, 25.0, 100.0])),
         "ps": draw(st.sampled_from([0.05, 0.1, 0.25]))}
    if kind in ("ft", "ft_sh"):
        d["N"] = draw(st.sampled_from([2, 4, 8, 16]))
        d["l0"] = draw(st.sampled_from([0.01, 1e-3]))
    elif kind == "vk":
        d["N"] = draw(st.integers(2, 10))
        d["ncol"] = draw(st.integers(1, 2))
    else:
        d["N"] = draw(st.integers(2, 10))
        d["factor"] = draw(st.integers(1, 2))
    return d


def key(d):
    # the same seed value must give the same screen whatever integer type carries it
    return tuple(sorted((k, v) for k, v in d.items() if k != "seed_type"))


_HELD = {}


def seed_obj(d):
    t, v = d.get("seed_type", "int"), d["seed"]
    # a caller that keeps ONE seed object (numpy.random.SeedSequence, or the list of words it stands for) and hands the same
    # object to every call it wants reproduced: numpy.random.default_rng(SeedSequence(v)) is the generator of default_rng(v),
    # and using it does not change the object, so the same object again means the same screen again
    if t == "seed_sequence":
        return _HELD.setdefault((t, v), np.random.SeedSequence(v))
    if t == "int_list":
        return _HELD.setdefault((t, v), [int(v)])
    if t == "np_int64" and v < 2**63:
        return np.int64(v)
    if t == "np_uint64" and v < 2**64:
        return np.uint64(v)
    if t == "np_intc" and v < 2**31:
        return np.intc(v)
    return int(v)


class Model:
    def __init__(self, ctx):
        self.ctx = ctx
        self.ref = {}          # descriptor key -> list of screens by row count
        self.inst = []         # [descriptor, object-or-None, rows]
        self.events = []       # ('perturb' | 'other', index)
        self.flags = set()
        self.saved_global = np.random.get_state()
        self.saved_py = random.getstate()

    def close(self):
        np.random.set_state(self.saved_global)
        random.setstate(self.saved_py)

    def _global(self):
        s = np.random.get_state()
        return (s[0], s[1].tobytes(), s[2], s[3], s[4])

    def _record(self, d, rows, arr, who):
        k = key(d)
        traj = self.ref.setdefault(k, [])
        arr = np.array(arr, copy=True)
        if rows < len(traj):
            if not np.array_equal(arr, traj[rows]):
                nd = int(np.sum(arr != traj[rows])) if arr.shape == traj[rows].shape else -1
                self.ctx.require(False, "%s: seeded %s screen (seed %r) is not bit-identical to its first realisation at row count %d (%d entries differ)" % (who, d["kind"], d["seed"], rows, nd))
            self.flags.add("reproduced")
        else:
            assert rows == len(traj)
            traj.append(arr)

    def make(self, d):
        ps_, ips, _, _ = T()
        g0 = self._global()
        with warnings.catch_warnings():
            warnings.simplefilter("ignore")
            if d["kind"] == "ft":
                obj, arr = None, ps_.ft_phase_screen(d["r0"], d["N"], d["ps"], d["L0"], d["l0"], seed=seed_obj(d))
            elif d["kind"] == "ft_sh":
                obj, arr = None, ps_.ft_sh_phase_screen(d["r0"], d["N"], d["ps"], d["L0"], d["l0"], seed=seed_obj(d))
            elif d["kind"] == "vk":
                obj = ips.PhaseScreenVonKarman(d["N"], d["ps"], d["r0"], d["L0"], random_seed=seed_obj(d), n_columns=d["ncol"])
                arr = obj.scrn
            else:
                obj = ips.PhaseScreenKolmogorov(d["N"], d["ps"], d["r0"], d["L0"], random_seed=seed_obj(d), stencil_length_factor=d["factor"])
                arr = obj.scrn
        self.ctx.require(self._global() == g0, "creating a seeded %s screen changed numpy's global random state" % d["kind"])
        self.ctx.require(bool(np.all(np.isfinite(arr))), "seeded screen not finite")
        # different seeds give different screens
        for k2, traj in self.ref.items():
            d2 = dict(k2)
            if d2["seed"] != d["seed"] and {kk: v for kk, v in d2.items() if kk != "seed"} == {kk: v for kk, v in d.items() if kk not in ("seed", "seed_type")}:
                self.ctx.require(not np.array_equal(traj[0], arr), "seeds %r and %r give the same %s screen" % (d2["seed"], d["seed"], d["kind"]))
                self.flags.add("different_seeds_compared")
        had = key(d) in self.ref
        self._record(d, 0, arr, "create")
        self.inst.append([d, obj, 0])
        if had:
            self._mark_separation(d)
        self.events.append(("inst", len(self.inst) - 1))

    def _mark_separation(self, d):
        # was there a perturbation and an operation on another instance since the reference was laid down?
        kinds = {e[0] for e in self.events}
        if "perturb" in kinds and ("inst" in kinds):
            self.flags.add("separated")

    def add_row(self, i):
        if not self.inst:
            return
        d, obj, rows = self.inst[i % len(self.inst)]
        if obj is None:
            return
        g0 = self._global()
        obj.add_row()
        self.ctx.require(self._global() == g0, "add_row on a seeded screen changed numpy's global random state")
        self.inst[i % len(self.inst)][2] = rows + 1
        self._record(d, rows + 1, obj.scrn, "add_row")
        self.events.append(("inst", i % len(self.inst)))

    def reproduce(self, i):
        if not self.inst:
            return
        d, obj, rows = self.inst[i % len(self.inst)]
        self.make(d)
        for _ in range(rows):
            self.add_row(len(self.inst) - 1)
        self._mark_separation(d)

    def perturb(self, k, how):
        if how == "seed":
            np.random.seed(k % (2**32))
        elif how == "draw":
            np.random.normal(size=k % 17 + 1)
            np.random.rand()
        else:
            random.seed(k)
            random.random()
        self.events.append(("perturb", k))
        self.flags.add("perturbed")

    def unrelated(self, which, k):
        ps_, ips, pc, aot = T()
        with warnings.catch_warnings():
            warnings.simplefilter("ignore")
            if which == "grouping":
                h = np.linspace(0, 20000, 12)
                pc.optimal_grouping(2, 3, h, np.ones(12) * 1e-15 * (1 + np.arange(12) % 3))
            elif which == "unseeded_ft":
                a = ps_.ft_phase_screen(0.16, 8, 0.1, 25.0, 0.01)
                b = ps_.ft_phase_screen(0.16, 8, 0.1, 25.0, 0.01)
                self.ctx.require(not np.array_equal(a, b), "two unseeded ft_phase_screen calls returned the same screen")
                self.flags.add("unseeded_pair")
            elif which == "unseeded_inf":
                a = ips.PhaseScreenVonKarman(6, 0.1, 0.16, 25.0)
                b = ips.PhaseScreenVonKarman(6, 0.1, 0.16, 25.0)
                self.ctx.require(not np.array_equal(a.scrn, b.scrn), "two unseeded infinite screens are identical")
                a.add_row()
                self.flags.add("unseeded_pair")
            elif which == "unseeded_sh":
                a = ps_.ft_sh_phase_screen(0.16, 8, 0.1, 25.0, 0.01)
                b = ps_.ft_sh_phase_screen(0.16, 8, 0.1, 25.0, 0.01)
                self.ctx.require(not np.array_equal(a, b), "two unseeded ft_sh_phase_screen calls returned the same screen")
            elif which == "circle":
                aot.circle(3 + k % 5, 16)
            else:
                aot.ft2(np.ones((4, 4)) * (k % 7), 0.5)
        self.events.append(("other", which))

    def apply(self, op):
        k = op["op"]
        if k == "make":
            self.make(op["d"])
        elif k == "add":
            self.add_row(op["i"])
        elif k == "reproduce":
            self.reproduce(op["i"])
        elif k == "perturb":
            self.perturb(op["k"], op["how"])
        elif k == "unrelated":
            self.unrelated(op["which"], op["k"])

    def nontrivial(self):
        return "reproduced" in self.flags and "separated" in self.flags


def make_machine(ctx, box):
    class M(RuleBasedStateMachine):
        def __init__(self):
            super().__init__()
            self.history = []
            box["history"] = self.history
            self.model = Model(ctx)

        def _do(self, op):
            self.history.append(op)
            self.model.apply(op)

        @rule(d=descriptor())
        def make(self, d):
            self._do({"op": "make", "d": d})

        @rule(i=st.integers(0, 20))
        def add_row(self, i):
            self._do({"op": "add", "i": i})

        @rule(i=st.integers(0, 20))
        def reproduce(self, i):
            self._do({"op": "reproduce", "i": i})

        @rule(k=st.integers(0, 2**32 - 1), how=st.sampled_from(["seed", "draw", "pyrandom"]))
        def perturb(self, k, how):
            self._do({"op": "perturb", "k": k, "how": how})

        @rule(which=st.sampled_from(["grouping", "unseeded_ft", "unseeded_inf", "unseeded_sh", "circle", "ft2"]), k=st.integers(0, 100))
        def unrelated(self, which, k):
            self._do({"op": "unrelated", "which": which, "k": k})

        def teardown(self):
            m = self.model
            m.close()
            ctx.case(self.history, nontrivial=m.nontrivial(), classes=sorted(m.flags) + sorted({"kind_" + i[0]["kind"] for i in m.inst}))
    return M


def replay_history(ctx, history):
    m = Model(ctx)
    try:
        for op in history:
            m.apply(op)
    finally:
        m.close()


# ------------------------------------------------------------------ plain reproducibility over many seeds / parameters

@st.composite
def repro_cases(draw):
    d = draw(descriptor())
    d["seed"] = draw(st.one_of(st.sampled_from(SEEDS), st.integers(0, 2**64)))
    return {"d": d, "rows": draw(st.integers(0, 12)), "noise": draw(st.integers(0, 2**32 - 1)), "other_seed": draw(st.integers(0, 2**40))}


def repro_body(ctx, case):
    d = case["d"]
    m = Model(ctx)
    try:
        ctx.case(case, nontrivial=case["rows"] > 0 or d["kind"] in ("ft", "ft_sh"), classes=["kind_" + d["kind"]])
        m.make(d)
        for _ in range(case["rows"]):
            m.add_row(0)
        m.perturb(case["noise"], "seed")
        m.unrelated("grouping", 0)
        if case["other_seed"] != d["seed"]:
            m.make(dict(d, seed=case["other_seed"]))
        m.reproduce(0)
    finally:
        m.close()


@st.composite
def seedset_cases(draw):
    d = draw(descriptor())
    base = draw(st.integers(0, 2**20))
    return {"d": d, "seeds": sorted({base, base + 1, base + 2**31, base + 2**32, base + 2**33, base + 2**63, base + 2**64, base * 2**32, 0, 2**32 - 1, 2**32})}


def seedset_body(ctx, case):
    d = case["d"]
    m = Model(ctx)
    try:
        ctx.case(case, nontrivial=True, classes=["kind_" + d["kind"]])
        for s_ in case["seeds"]:
            m.make(dict(d, seed=s_))           # make() compares with every earlier seed of the same parameters
    finally:
        m.close()


# ------------------------------------------------------------------ order independence across pristine processes

def isolated(ops, hashseed="0"):
    import json, os, subprocess, sys
    from ..core import VERIF_DIR, REPO_DIR, HarnessError
    env = dict(os.environ, PYTHONPATH=VERIF_DIR, VERIF_REPO=REPO_DIR, PYTHONHASHSEED=str(hashseed), NUMBA_NUM_THREADS="1", OMP_NUM_THREADS="1")
    p = subprocess.run([sys.executable, "-m", "vt.isolated"], input=json.dumps(ops), capture_output=True, text=True, env=env, cwd=VERIF_DIR, timeout=600)
    if p.returncode != 0:
        if os.path.join(REPO_DIR, "aotools") in p.stderr:
            raise Violation("isolated run of %r failed inside the library: %s" % ([o["d"]["kind"] for o in ops], p.stderr.strip().splitlines()[-1][:200]))
        raise HarnessError("isolated runner failed: %s" % p.stderr[-400:])
    return json.loads(p.stdout)


def neighbours(d):
    out = []
    for f, v in (("ps", d["ps"] * 2.0), ("ps", d["ps"] * 0.5), ("r0", d["r0"] * 1.7), ("L0", d["L0"] * 2.5), ("seed", d["seed"] + 1),
                 ("N", d["N"] + (2 if d["kind"] in ("ft", "ft_sh") else 1))):
        out.append((f, dict(d, **{f: v})))
    if d["kind"] == "vk":
        out.append(("ncol", dict(d, ncol=3 - d["ncol"])))
    elif d["kind"] == "fried":
        out.append(("factor", dict(d, factor=3 - d["factor"])))
    else:
        out.append(("l0", dict(d, l0=d["l0"] * 3)))
    other = {"vk": "fried", "fried": "vk", "ft": "ft_sh", "ft_sh": "ft"}[d["kind"]]
    o = dict(d, kind=other)
    o.pop("ncol", None), o.pop("factor", None)
    if other == "vk":
        o["ncol"] = 2
    elif other == "fried":
        o["factor"] = 2
    out.append(("kind", o))
    return out


@st.composite
def neighbour_cases(draw):
    d = draw(descriptor())
    if draw(st.integers(0, 3)) > 0 and d["kind"] in ("ft", "ft_sh"):
        d = dict(d, kind=draw(st.sampled_from(["vk", "fried"])), N=draw(st.integers(2, 9)))
        d.pop("l0", None)
        d["ncol" if d["kind"] == "vk" else "factor"] = draw(st.integers(1, 2))
    return {"d": d, "rows": draw(st.integers(1, 4)), "order": draw(st.integers(0, 10**6))}


def neighbour_body(ctx, case):
    d, k = case["d"], case["rows"]
    nb = neighbours(d)
    perm = gen.np_rng(case["order"]).permutation(len(nb))
    nb = [nb[i] for i in perm]
    ctx.case(case, nontrivial=d["kind"] in ("vk", "fried"), classes=["kind_" + d["kind"]])
    # each interpreter gets its own string-hash salt (PYTHONHASHSEED): "the same seed gives the same screen" holds across
    # runs of a program, not only within one interpreter
    hs = [1 + (case["order"] * 7919 + i * 104729) % 4000000 for i in range(2)]
    alone = isolated([{"d": d, "rows": k}])[0]
    after = isolated([{"d": x, "rows": 1} for _, x in nb] + [{"d": d, "rows": k}], hashseed=hs[0])[-1]
    sand = isolated([{"d": d, "rows": k}] + [{"d": x, "rows": 1} for _, x in nb] + [{"d": d, "rows": k}], hashseed=hs[1])
    if after != alone and sand[0] != alone and isolated([{"d": d, "rows": k}], hashseed=hs[0])[0] != alone:
        ctx.require(False, "seeded %s screen built alone in two fresh interpreters (string-hash salts 0 and %d) differs: the same seed does not reproduce the screen in another run of the program" % (d["kind"], hs[0]))
    for name, got in (("created after instances that differ in one parameter each", after), ("created first", sand[0]), ("re-created after instances that differ in one parameter each", sand[-1])):
        if got != alone:
            first = next(i for i, (x, y) in enumerate(zip(got, alone)) if x != y)
            # find the culprit parameter (diagnosis only; each extra run is a fresh process)
            culprit = "?"
            for f, x in nb:
                if isolated([{"d": x, "rows": 1}, {"d": d, "rows": k}])[-1] != alone:
                    culprit = "%s (%r vs %r)" % (f, d.get(f, d["kind"]), x.get(f, x["kind"]))
                    break
            ctx.require(False, "seeded %s screen %s differs from the same screen built alone in a fresh process, from row count %d on; an earlier instance differing only in %s is enough" % (d["kind"], name, first, culprit))


def unseeded_cases(tier):
    n = 1500 if tier == "quick" else 6000
    # ... and the same with NumPy's legacy global generator put back to one and the same state before every call and every
    # added row (a script that re-seeds it per frame to make its detector noise repeatable)
    return [{"kind": k, "count": n} for k in ("ft", "ft_sh", "vk", "fried")] + [{"kind": k, "count": n // 5, "reseed": True} for k in ("ft", "ft_sh", "vk", "fried")]


def unseeded_body(ctx, case):
    """'Unseeded calls differ from each other': among `count` unseeded screens no two are identical (a hidden seed
    space of 1e5 values would give >= 1 collision with probability 1 - exp(-count^2 / 2e5) > 0.9999 for 1500)."""
    import hashlib
    ps_, ips, _, _ = T()
    ctx.case(case, nontrivial=True, classes=["kind_" + case["kind"]] + (["global_state_reset_each_time"] if case.get("reseed") else []))
    seen = {}
    st0 = np.random.get_state()
    try:
        with warnings.catch_warnings():
            warnings.simplefilter("ignore")
            reseed = case.get("reseed", False)
            rows_seen = {}
            for i in range(case["count"]):
                if reseed:
                    np.random.seed(20240917)
                    np.random.normal(size=3)
                if case["kind"] == "ft":
                    a = ps_.ft_phase_screen(0.16, 2, 0.1, 25.0, 0.01)
                elif case["kind"] == "ft_sh":
                    a = ps_.ft_sh_phase_screen(0.16, 2, 0.1, 25.0, 0.01)
                else:
                    o = ips.PhaseScreenVonKarman(2, 0.1, 0.16, 25.0, n_columns=1) if case["kind"] == "vk" else ips.PhaseScreenKolmogorov(2, 0.1, 0.16, 25.0, stencil_length_factor=1)
                    a = o.scrn
                    if reseed:
                        # the rows added to ONE screen, the global state being reset before each: the innovations must differ
                        a = np.array(a, copy=True)
                        prev = np.array(o.scrn, copy=True)
                        for k in range(3):
                            np.random.seed(20240917)
                            row = np.array(o.add_row()[0], copy=True)
                            # new row minus what the old screen alone would give is B b: recover it by stepping a copy with the same content and comparing is
                            # not possible without the stream, so compare rows across screens instead (hash below) and successive increments here
                            hk = hashlib.blake2b(row.tobytes(), digest_size=12).digest()
                            ctx.require(hk not in rows_seen, "unseeded %s screens: row %d of screen %d is bit-identical to an earlier new row although NumPy's global state is all they share" % (case["kind"], k, i))
                            rows_seen[hk] = (i, k)
                h = hashlib.blake2b(np.ascontiguousarray(a).tobytes(), digest_size=12).digest()
                ctx.require(h not in seen, "unseeded %s screens number %d and %d are bit-identical%s" % (case["kind"], seen.get(h, -1), i, " (NumPy's global generator was put in the same state before each)" if reseed else ""))
                seen[h] = i
    finally:
        np.random.set_state(st0)


def forked_cases(tier):
    return [{"children": c, "warm": w, "per_child": 3} for c in ((4, 8) if tier == "quick" else (4, 8, 16)) for w in (0, 2)]


def forked_body(ctx, case):
    """'Unseeded calls differ from each other' also when the calls are made by worker processes forked from one parent
    after the library was imported (the usual way to generate many screens in parallel): a generator created at import
    or at the first call and inherited through fork() would give every worker the same screens.  (vt/forked.py)"""
    import json, os, subprocess, sys
    from ..core import VERIF_DIR, REPO_DIR
    ctx.case(case, nontrivial=True, classes=["children_%d" % case["children"], "warm_%d" % case["warm"]])
    env = dict(os.environ, PYTHONPATH=VERIF_DIR, VERIF_REPO=REPO_DIR, NUMBA_THREADING_LAYER="workqueue", NUMBA_NUM_THREADS="1", OMP_NUM_THREADS="1")
    p = subprocess.run([sys.executable, "-m", "vt.forked", str(case["children"]), str(case["warm"]), str(case["per_child"])], capture_output=True, text=True, env=env, cwd=VERIF_DIR, timeout=900)
    if p.returncode != 0:
        if os.path.join(REPO_DIR, "aotools") in p.stderr:
            raise Violation("unseeded screens in forked workers failed inside the library: %s" % p.stderr.strip().splitlines()[-1][:200])
        raise HarnessError("forked runner failed: %s" % p.stderr[-400:])
    seen = {}
    for who, kind, i, h in json.loads(p.stdout):
        prev = seen.get(h, ("?", "?", -1))
        ctx.require(h not in seen, "unseeded %s screen number %d of %s is bit-identical to number %d of %s (processes forked from one parent after %d unseeded calls there)"
                    % (kind, i, who, prev[2], prev[0], case["warm"]))
        seen[h] = (who, kind, i)


def thread_cases(tier):
    return [{"kind": "ft", "N": 256}, {"kind": "ft_sh", "N": 256}, {"kind": "ft", "N": 512}]


def thread_body(ctx, case):
    """Seeded screens generated at the same time by threads of one process (a thread pool over layers, equal sizes) are
    bit-identical to the same seeded screens generated one after the other."""
    ps_, ips, _, _ = T()
    f = ps_.ft_sh_phase_screen if case["kind"] == "ft_sh" else ps_.ft_phase_screen
    N = case["N"]
    ctx.case(case, nontrivial=True, classes=["kind_" + case["kind"], "N%d" % N])
    with warnings.catch_warnings():
        warnings.simplefilter("ignore")
        ctx.thread_agreement([(lambda i=i: f(0.16, N, 0.05, 25.0, 0.01, seed=1000 + i)) for i in range(8)], "seeded " + case["kind"] + " screens", threads=4, rounds=2)


LAWS = [
    plain_law("threads", thread_cases, thread_body, shards={"quick": 3, "thorough": 3}),
    plain_law("forked_workers_distinct", forked_cases, forked_body, shards={"quick": 2, "thorough": 3}),
    plain_law("unseeded_all_distinct", unseeded_cases, unseeded_body, shards={"quick": 4, "thorough": 4}),
    given_law("order_independence", neighbour_cases(), neighbour_body, {"quick": 3, "thorough": 20}, shards={"quick": 6, "thorough": 16}),
    given_law("distinct_seeds", seedset_cases(), seedset_body, {"quick": 25, "thorough": 100}, shards={"quick": 2, "thorough": 8}),
    machine_law("history", make_machine, replay_history, {"quick": 60, "thorough": 400}, {"quick": 25, "thorough": 40}, shards={"quick": 6, "thorough": 16}),
    given_law("reproduce", repro_cases(), repro_body, {"quick": 80, "thorough": 600}, shards={"quick": 4, "thorough": 16}),
]
