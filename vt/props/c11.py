"""C11 - propagators form a group and agree with each other and with theory."""
import math

import numpy as np
from hypothesis import strategies as st

from ..core import given_law, plain_law
from .. import gen
from ..oracles import fresnel

RULE = ("group: random complex fields (N even <= 64), programs of 1-6 signed angular-spectrum steps (lambda z/d1^2 in "
        "+-[1e-3,1e2]) vs the single step of their sum, vs a second split, P(0), P(-z)P(z); magnified back-propagation "
        "P(1/m,-z)P(m,z) = e^{i phi} I. differential: arbitrary random fields N<=12 vs direct summation of the Fresnel "
        "integral in physical coordinates for oneStepFresnel, lensAgainst and twoStepFresnel (composition through the "
        "physical intermediate plane; values AND orientation). gaussian: off-axis Gaussian beams, parameters solved from "
        "containment criteria (4.5 w inside every window the algorithm uses), each propagator vs the analytic "
        "q-parameter solution (1e-6 rel. L2). airy: lensAgainst(circle) ladder vs [2J1(x)/x]^2. Non-trivial: group >=3 "
        "steps with mixed signs; differential asymmetric field; gaussian off-axis and m != 1. Distinct = canonical JSON."
        " Law threads: angularSpectrum with different geometries on one grid size.")
ASSUMPTIONS = ["Fresnel convention without exp(ikz), as in the code and Schmidt (2010)",
               "one-step/lens output lives on the physical grid j*lambda*z/(N d1) (negative spacing for z<0)",
               "Airy: relative L2 error <= 1/R for a pixelated disc of radius R pixels (trend check, last rung better than first)"]

TOL = 1e-9


def op():
    from aotools import opticalpropagation
    return opticalpropagation


def nrm(a):
    return float(np.sqrt(np.sum(np.abs(a) ** 2))) or 1.0


# ------------------------------------------------------------------ group laws

@st.composite
def group_cases(draw):
    N = draw(st.one_of(st.integers(1, 32).map(lambda k: 2 * k), st.integers(1, 65)))      # the group laws do not need an even grid
    u = draw(gen.complex_array((N, N), kind=draw(st.sampled_from(["dense", "dense", "sparse"]))))
    d1 = draw(gen.logfloat(1e-4, 1e-1))
    wvl = draw(gen.logfloat(0.3e-6, 10e-6))
    if draw(st.integers(0, 4)) == 0:
        d1 = wvl * draw(gen.logfloat(0.05, 2.0))              # sampling finer than the wavelength is still a valid sampling
    steps = draw(st.lists(gen.signed_logfloat(1e-3, 1e2), min_size=1, max_size=6))
    cut = draw(st.floats(0.05, 0.95))
    return {"u": u, "d1": d1, "wvl": wvl, "steps": steps, "cut": cut, "m": draw(st.floats(0.3, 3.0)),
            "zero_kind": draw(st.sampled_from(["int", "float", "np"]))}


def group_body(ctx, case):
    o = op()
    u, d1, wvl = case["u"], case["d1"], case["wvl"]
    zs = [a * d1 * d1 / wvl for a in case["steps"]]
    total = math.fsum(zs)
    mixed = any(z > 0 for z in zs) and any(z < 0 for z in zs)
    ctx.case(case, nontrivial=len(zs) >= 3 and mixed, classes=["steps%d" % len(zs), "mixed" if mixed else "one_sign", "N_odd" if u.shape[0] % 2 else "N_even", "sub_wavelength_sampling" if d1 < wvl else "coarse_sampling"])
    nu = nrm(u)
    P = lambda f, z: o.angularSpectrum(f, wvl, d1, d1, z)
    # identity
    z0 = {"int": 0, "float": 0.0, "np": np.float64(0.0)}[case["zero_kind"]]
    ctx.equal(np.asarray(P(u, z0)), u, "P(0) u == u")
    # program vs single step
    f = u
    for z in zs:
        f = P(f, z)
    single = P(u, total) if total != 0 else u
    ctx.close(f, single, TOL, "P(z_n)...P(z_1) u == P(sum z) u (%d steps)" % len(zs), scale=nu)
    # a different split of the same total
    za, zb = total * case["cut"], total - total * case["cut"]
    if za != 0 and zb != 0:
        ctx.close(P(P(u, za), zb), single, TOL, "two-way split of the same total", scale=nu)
    # inverse
    ctx.close(P(P(u, zs[0]), -zs[0]), u, TOL, "P(-z) P(z) u == u", scale=nu)
    # unitarity of each step
    ctx.close(nrm(P(u, zs[0])), nu, TOL, "P(z) preserves the norm", scale=nu)
    for sfac in (1e-11, 1e6):
        ctx.close(P(u * sfac, zs[0]), sfac * P(u, zs[0]), TOL, "P(z)(s u) == s P(z) u", scale=sfac * nu, name="group amplitude homogeneity")
    # magnified there-and-back: identity up to a constant phase
    m = case["m"]
    d2 = m * d1
    z = zs[0]
    fw = o.angularSpectrum(u, wvl, d1, d2, z)
    back = o.angularSpectrum(fw, wvl, d2, d1, -z)
    c = np.vdot(u, back) / (nu * nu)
    ctx.close(abs(c), 1.0, TOL, "P(1/m,-z)P(m,z): |constant| == 1", scale=1.0)
    ctx.close(back, c * u, 1e-8, "P(1/m,-z)P(m,z) u == e^{i phi} u (m=%r)" % m, scale=nu)


# ------------------------------------------------------------------ differential vs direct summation

@st.composite
def diff_cases(draw):
    N = draw(st.integers(2, 13))            # odd and even grids: the central sample is index N//2 in both
    u = draw(gen.complex_array((N, N), kind=draw(st.sampled_from(["dense", "dense", "sparse"]))))
    return {"u": u, "d1": draw(gen.logfloat(1e-4, 1e-1)), "wvl": draw(gen.logfloat(0.3e-6, 10e-6)),
            "a": draw(gen.signed_logfloat(0.05, 50)), "prop": draw(st.sampled_from(["one", "lens", "two", "two"])),
            "m": draw(st.one_of(st.just(1.0), st.floats(0.3, 0.95), st.floats(1.05, 3.0)))}


KF_MIRROR = "C11-twostep-mirrored"


def unmirror(a):
    return np.roll(a[::-1, ::-1], 1, axis=(0, 1))


def diff_body(ctx, case):
    o = op()
    u, d1, wvl, prop, m = case["u"], case["d1"], case["wvl"], case["prop"], case["m"]
    N = u.shape[0]
    z = case["a"] * d1 * d1 / wvl
    asym = not (np.allclose(u, u.T) or np.allclose(u, u[::-1, ::-1]))
    ctx.case(case, nontrivial=bool(asym and N >= 4), classes=[prop, "z_neg" if z < 0 else "z_pos", "m1" if m == 1.0 else "m_ne_1"] if prop == "two" else [prop, "z_neg" if z < 0 else "z_pos"])
    x1 = fresnel.grid(N, d1)
    if prop == "one":
        got = o.oneStepFresnel(u, wvl, d1, z)
        x2 = fresnel.grid(N, wvl * z / (N * d1))
        want = fresnel.fresnel_direct(u, wvl, x1, x2, d1, z)
        ctx.close(got, want, 1e-8, "oneStepFresnel vs direct Fresnel sum on x2 = j lambda z/(N d1)", scale=nrm(want) / N + 1e-300)
    elif prop == "lens":
        got = o.lensAgainst(u, wvl, d1, z)
        x2 = fresnel.grid(N, wvl * z / (N * d1))
        want = fresnel.lens_direct(u, wvl, x1, x2, d1, z)
        ctx.close(got, want, 1e-8, "lensAgainst vs direct Fourier sum with output quadratic phase", scale=nrm(want) / N + 1e-300)
    else:
        d2 = d1 if m == 1.0 else m * d1
        got = np.asarray(o.twoStepFresnel(u, wvl, d1, d2, z))
        # same input grid, same output grid: the two propagators must return the same field, for any field (the two-step
        # scheme with steps in opposite directions IS the angular-spectrum operator; unit magnification is its limit)
        asp = np.asarray(o.angularSpectrum(u, wvl, d1, d2, z))
        ctx.close(got, asp, 1e-9, "twoStepFresnel(m=%r) == angularSpectrum on the same grids" % m, scale=nrm(asp) / N + 1e-300, name="two-step vs angular spectrum")
        if m == 1.0:
            return
        Dz1 = z / (1 - d2 / d1)
        Dz2 = z - Dz1
        d1a = wvl * Dz1 / (N * d1)                       # physical (signed) spacing of the intermediate plane
        xa = fresnel.grid(N, d1a)
        U1 = fresnel.fresnel_direct(u, wvl, x1, xa, d1, Dz1)
        x2 = fresnel.grid(N, d2)
        want = fresnel.fresnel_direct(U1, wvl, xa, x2, abs(d1a), Dz2)
        sc = nrm(want) / N + 1e-300
        if m != 1.0 and ctx.is_open(KF_MIRROR):
            ctx.exclude(KF_MIRROR)
            ctx.close(unmirror(got), want, 1e-7, "twoStepFresnel (un-mirrored, known finding) vs direct composition", scale=sc)
        else:
            ctx.close(got, want, 1e-7, "twoStepFresnel(m=%r) vs direct composition through the physical intermediate plane (values and orientation)" % m, scale=sc)


# ------------------------------------------------------------------ Gaussian beams

TGRID = np.exp(np.linspace(math.log(0.02), math.log(60.0), 60))


def slack(target, N, a, t, m):
    """Largest admissible max(|x0|,|y0|)/d1 for the target at normalised distance t=z/zR (None if infeasible)."""
    s = [N / 2.0 - 4.5 * a]
    at = abs(t)
    if target == "angular":
        s.append(m * N / 2.0 - 4.5 * a * math.sqrt(1 + t * t))
        fw = math.sqrt(1 + ((1 - m) / t) ** 2) / (math.pi * a)
        if m != 1.0:
            s.append((0.5 - 4.5 * fw) * at * math.pi * a * a / abs(1 - m))
        elif 4.5 * fw > 0.5:
            return None
    elif target == "one":
        s.append(at * math.pi * a * a / 2.0 - 4.5 * a * math.sqrt(1 + t * t))
    elif target == "two" and m == 1.0:
        # unit magnification: input and output windows and the sampled spectrum must hold the beam, nothing else - the
        # intermediate plane of the two-step scheme is internal to the code, not a property of the beam or of the two grids
        s.append(N / 2.0 - 4.5 * a * math.sqrt(1 + t * t))
        if 4.5 / (math.pi * a) > 0.5:
            return None
    elif target == "two":
        t1 = t / (1 - m)
        s.append(abs(t1) * math.pi * a * a / 2.0 - 4.5 * a * math.sqrt(1 + t1 * t1))
        s.append(m * N / 2.0 - 4.5 * a * math.sqrt(1 + t * t))
    r = min(s)
    return r if r > 0 else None


@st.composite
def gauss_cases(draw, sizes=(32, 64)):
    N = draw(st.sampled_from(sizes))
    target = draw(st.sampled_from(["angular", "angular", "one", "two", "two", "lens"]))
    # spacings that are nominally equal but computed two ways (0.3 vs 0.1 * 3) differ by an ulp: magnification 1 +- tiny
    near_one = st.tuples(st.sampled_from([-1.0, 1.0]), st.sampled_from([2.0 ** -52, 2.0 ** -51, 2.0 ** -50, 1e-14, 1e-13, 1e-12, 1e-11, 1e-10, 1e-9, 1e-8, 1e-7, 1e-6])).map(lambda q: 1.0 + q[0] * q[1])
    m = draw(st.one_of(st.just(1.0), st.floats(0.4, 2.5), near_one))
    if target == "two":
        # the output window m N d1 must hold the (diverged) beam: needs m N / 2 > 4.5 a sqrt(1 + t^2), a >= 3.9
        N = max(N, 64)
        if m * N / 2.0 < 26.0:
            m = draw(st.floats(52.0 / N, 2.5))
    return {"N": N, "target": target,
            "a": draw(st.floats(3.2, max(3.3, N / 14.0))), "m": m,
            "tsel": draw(st.integers(0, 10**6)), "sign": draw(st.sampled_from([-1.0, 1.0])),
            "ux": draw(st.sampled_from([-1.0, -0.7, -0.4, 0.0, 0.3, 0.6, 0.9])), "uy": draw(st.sampled_from([-0.9, -0.5, 0.0, 0.2, 0.45, 0.8, 1.0])),
            "d1": draw(gen.logfloat(1e-4, 1e-1)), "wvl": draw(gen.logfloat(0.3e-6, 10e-6)), "amp": draw(st.sampled_from([1.0, 1.0, 1e-10, 1e-6, 1e5]))}


def gauss_body(ctx, case):
    o = op()
    N, target, a, m, d1, wvl = case["N"], case["target"], case["a"], case["m"], case["d1"], case["wvl"]
    if target == "two":
        a = max(a, 3.9)         # the intermediate plane needs a > (9/pi) sqrt(1 + 1/t1^2)
    feas = [(t, slack(target, N, a, t, m)) for t in TGRID]
    feas = [(t, s) for t, s in feas if s is not None]
    if not feas:
        ctx.reject("no_contained_distance_for_" + target)
        return
    t, s = feas[case["tsel"] % len(feas)]
    t *= case["sign"]
    w0 = a * d1
    x0, y0 = 0.9 * s * case["ux"] * d1, 0.9 * s * case["uy"] * d1
    zR = math.pi * w0 * w0 / wvl
    z = t * zR
    d2 = d1 if m == 1.0 else m * d1
    x1 = fresnel.grid(N, d1)
    amp = case.get("amp", 1.0)
    U0 = amp * fresnel.gaussian_beam(x1, x1, w0, x0, y0, wvl, 0.0)
    off = (abs(x0) > 0.25 * d1 and abs(y0) > 0.25 * d1 and abs(abs(x0) - abs(y0)) > 0.25 * d1)
    ctx.case(case, nontrivial=bool(off and (m != 1.0 or target in ("one", "lens"))), classes=[target, "N%d" % N, "N_odd" if N % 2 else "N_even", "m1" if m == 1.0 else ("m_within_1e-6_of_1" if abs(m - 1.0) <= 1e-6 else "m_ne_1"), "z_neg" if z < 0 else "z_pos", "off_axis" if off else "near_axis"])
    ran = []
    for prop in ("angular", "one", "two", "lens"):
        if prop != target and (prop == "lens" or slack(prop, N, a, abs(t), m) is None or slack(prop, N, a, abs(t), m) < 0.9 * s * max(abs(case["ux"]), abs(case["uy"]))):
            continue
        if prop == "angular":
            got = o.angularSpectrum(U0, wvl, d1, d2, z)
            x2 = fresnel.grid(N, d2)
            want = amp * fresnel.gaussian_beam(x2, x2, w0, x0, y0, wvl, z)
        elif prop == "one":
            got = o.oneStepFresnel(U0, wvl, d1, z)
            x2 = fresnel.grid(N, wvl * z / (N * d1))
            want = amp * fresnel.gaussian_beam(x2, x2, w0, x0, y0, wvl, z)
        elif prop == "two":
            got = np.asarray(o.twoStepFresnel(U0, wvl, d1, d2, z))
            x2 = fresnel.grid(N, d2)
            want = amp * fresnel.gaussian_beam(x2, x2, w0, x0, y0, wvl, z)
            if m != 1.0 and ctx.is_open(KF_MIRROR):
                ctx.exclude(KF_MIRROR)
                got = unmirror(got)
        else:
            got = o.lensAgainst(U0, wvl, d1, z)
            x2 = fresnel.grid(N, wvl * z / (N * d1))
            want = amp * fresnel.gaussian_focal(x2, x2, w0, x0, y0, wvl, z)
        ran.append(prop)
        err = nrm(np.asarray(got) - want) / nrm(want)
        ctx.residual("gaussian_" + prop, err, 1e-6)
        ctx.require(np.asarray(got).shape == want.shape and err <= 1e-6,
                    "%s vs analytic Gaussian beam: relative L2 error %.3g > 1e-6 (N=%d, w0=%.3g d1, z=%.3g zR, m=%r, centre=(%.3g,%.3g) d1)" % (
                        prop, err, N, a, t, m, x0 / d1, y0 / d1))
    for p in ran:
        ctx.classes["ran_" + p] += 1


# ------------------------------------------------------------------ Airy ladder

def airy_cases(tier):
    return [{"ladder": [8, 12, 16, 24] if tier == "quick" else [8, 12, 16, 24, 32, 48], "wvl": w, "f": f, "d1": d}
            for (w, f, d) in ((1e-6, 10.0, 1e-3), (0.5e-6, -3.0, 2e-4))]


def airy_body(ctx, case):
    from scipy.special import j1
    from aotools.functions.pupil import circle
    o = op()
    wvl, f, d1 = case["wvl"], case["f"], case["d1"]
    errs = []
    for R in case["ladder"]:
        N = 8 * R
        ap = circle(R, N).astype(complex)
        out = o.lensAgainst(ap, wvl, d1, f)
        ctx.close(out[N // 2, N // 2], ap.sum() * d1 * d1 / (1j * wvl * f), 1e-12, "Airy: on-axis amplitude == sum(U) d1^2/(i lambda f)")
        x2 = fresnel.grid(N, wvl * f / (N * d1))
        X, Y = np.meshgrid(x2, x2)
        x = 2 * math.pi * R * d1 * np.sqrt(X ** 2 + Y ** 2) / (wvl * abs(f))
        with np.errstate(all="ignore"):
            pat = np.where(x == 0, 1.0, (2 * j1(x) / np.where(x == 0, 1, x)) ** 2)
        I0 = (math.pi * (R * d1) ** 2 / (wvl * abs(f))) ** 2
        err = nrm(np.abs(out) ** 2 - I0 * pat) / nrm(I0 * pat)
        errs.append(err)
        ctx.residual("airy_R%d" % R, err, 1.0 / R)
        ctx.require(err <= 1.0 / R, "Airy pattern: relative L2 error %.3g > 1/R for R=%d" % (err, R))
    ctx.case(case, nontrivial=True)
    ctx.note("airy_errors", errs)
    ctx.require(errs[-1] < errs[0], "Airy ladder: last rung (%.3g) not better than the first (%.3g)" % (errs[-1], errs[0]))


def self_test():
    fresnel.self_test()


def thread_cases(tier):
    return [{"N": 128}, {"N": 256}]


def thread_body(ctx, case):
    """Beams propagated at the same time by threads of one process (same grid size, different spacings and distances) come
    out as when propagated one after the other - each the field of its own geometry."""
    o = op()
    N = case["N"]
    ctx.case(case, nontrivial=True, classes=["N%d" % N])
    rng = gen.np_rng(N)
    thunks = []
    for i in range(8):
        u = rng.normal(size=(N, N)) + 1j * rng.normal(size=(N, N))
        thunks.append(lambda u=u, i=i: o.angularSpectrum(u, (0.5 + 0.05 * i) * 1e-6, 1e-3 * (1 + 0.1 * i), 1e-3 * (1 + 0.1 * i) * (1 + 0.2 * (i % 2)), 5.0 * (1 + i)))
    with np.errstate(all="ignore"):
        ctx.thread_agreement(thunks, "angularSpectrum")


LAWS = [
    plain_law("threads", thread_cases, thread_body, shards={"quick": 2, "thorough": 2}),
    given_law("gaussian_xl", gauss_cases((256, 384)), gauss_body, {"quick": 0, "thorough": 12}, shards={"quick": 1, "thorough": 16}),
    given_law("group", group_cases(), group_body, {"quick": 300, "thorough": 3750}, shards={"quick": 3, "thorough": 16}),
    given_law("differential", diff_cases(), diff_body, {"quick": 400, "thorough": 6250}, shards={"quick": 3, "thorough": 16}),
    given_law("gaussian", gauss_cases((32, 33, 64, 65)), gauss_body, {"quick": 250, "thorough": 2000}, shards={"quick": 3, "thorough": 16}),
    given_law("gaussian_large", gauss_cases((128,)), gauss_body, {"quick": 12, "thorough": 250}, shards={"quick": 3, "thorough": 16}),
    plain_law("airy", airy_cases, airy_body),
]
