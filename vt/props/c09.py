"""C09 - scaled Fourier transforms are exact inverse pairs obeying Parseval."""
import math

import numpy as np
from hypothesis import strategies as st

from ..core import given_law, plain_law
from .. import gen
from ..oracles import dft

RULE = ("1-D: N in 1..65 (odd and even), batch shapes ()..(3,2), real/complex/float32/int input, delta log-uniform "
        "[1e-3,1e3], entry point drawn from {aotools.fouriertransform.X, aotools.X}; 2-D: (N,N) N in 1..24 with batch "
        "shapes; oracle = slow centred DFT matrix (origin at sample N//2), plus round trip, linearity, Parseval, "
        "batch=per-item, cyclic-shift theorem, centred Gaussian vs analytic. Real variants: half-spectrum equality, "
        "round trip, Hermitian-weighted Parseval for even N. Non-trivial = odd N>=3, or batch rank>=1, or 2-D. "
        "Distinct = distinct canonical JSON of the case."
        " Also: nearly square rectangular real frames (M = N +- 1, 2); cubes of more than 2^22 samples (argument untouched, no aliasing, per-frame equality, round trip, Parseval)."
        " Law threads: all six transforms on equal-shape frames from four threads at once.")
ASSUMPTIONS = ["origin at the centre sample means index N//2 (the centre sample for odd N, the usual convention for even N)",
               "frequency spacing is 1/(N*delta) as the statement requires",
               "tolerance 1e-10 relative to the input/output norm (double-precision FFT)"]

TOL = 1e-10
TOL32 = 2e-5      # numpy >= 2 keeps single precision through the FFT for float32 input


def tol_for(case):
    return TOL32 if case.get("kind") in ("float32", "complex64") else TOL


def entry(name, where):
    import aotools
    from aotools import fouriertransform
    return getattr(fouriertransform if where == "module" else aotools, name)


def norm(a):
    a = np.asarray(a)
    return float(np.sqrt(np.sum(np.abs(a.astype(np.complex128)) ** 2))) or 1.0


@st.composite
def sig1(draw, twod=False, nmax=None):
    N = draw(st.integers(1, nmax or (24 if twod else 65)))
    batch = tuple(draw(st.sampled_from([(), (), (1,), (3,), (2, 2), (3, 2)])))
    shape = batch + ((N, N) if twod else (N,))
    kind = draw(st.sampled_from(["complex", "real", "float32", "complex64", "int", "impulse", "uint8", "int16", "padded_odd_mode"]))
    if kind == "padded_odd_mode":
        # what an optics user transforms: a zero-padded frame holding a mode that is odd about the pupil centre (tilt, coma),
        # or +1/-1 impulse pairs - rows (or columns) that are not empty but whose samples cancel exactly, most rows empty
        n = draw(st.integers(1, max(1, N // 2)))
        v = np.arange(n) - (n - 1) / 2.0                                  # exactly antisymmetric, halves are exact
        if draw(st.booleans()) or n < 2:
            v = np.zeros(n)
            v[0], v[-1] = (1.0, -1.0) if n >= 2 else (0.0, 0.0)
        o = draw(st.integers(0, N - n))
        x = np.zeros(shape)
        if twod:
            w = np.array([draw(gen.dyadic(-2, 2, 8)) or 1.0 for _ in range(n)])
            blk = np.outer(w, v)
            if draw(st.booleans()):
                blk = blk.T
            x[..., o:o + n, o:o + n] = blk
        else:
            x[..., o:o + n] = v
        if draw(st.booleans()):
            x = x.astype(draw(st.sampled_from(["int16", "complex128"]))) if np.all(x == np.round(x)) else x.astype("complex128")
    elif kind == "complex":
        x = draw(gen.complex_array(shape, kind="dense"))
    elif kind == "real":
        x = draw(gen.float_array(shape, kind="dense"))
    elif kind == "float32":
        x = draw(gen.float_array(shape, kind="dyadic", dtype="float32"))
    elif kind == "complex64":
        x = (draw(gen.float_array(shape, kind="dyadic")) + 1j * draw(gen.float_array(shape, kind="dyadic"))).astype(np.complex64)
    elif kind == "int":
        x = draw(gen.int_array(shape, -50, 50))
    elif kind == "uint8":
        x = draw(gen.int_array(shape, 0, 255, dtype="uint8"))          # raw 8-bit camera frames
    elif kind == "int16":
        x = draw(gen.int_array(shape, -3000, 3000, dtype="int16"))
    else:
        x = draw(gen.complex_array(shape, kind="sparse"))
    y = draw(gen.complex_array(shape, kind="dense"))
    return {"x": x, "y": y, "delta": draw(st.one_of(gen.logfloat(1e-3, 1e3), st.sampled_from([1, 2, 3, 5]))), "delta_as": draw(st.sampled_from(["python", "python", "python", "float32", "int32", "float64_0d"])), "where": draw(st.sampled_from(["module", "package"])),
            "a": draw(gen.dyadic(-2, 2, 16)), "b": draw(gen.dyadic(-2, 2, 16)), "k": draw(st.integers(-N, N)), "kind": kind,
            "amp_exp": draw(st.sampled_from([-60, -50, -44, -30, -20, -14, -7, 7, 20, 40, 60]))}


def classes_for(case, twod):
    x = case["x"]
    N = x.shape[-1]
    return ["delta_int" if isinstance(case["delta"], int) else "delta_float", "spacing_as_" + case.get("delta_as", "python"), "odd" if N % 2 else "even", "batch%d" % (x.ndim - (2 if twod else 1)), case["where"], case["kind"]]



def homogeneity(ctx, case, fwd, inv, x, y, X, yi, delta, df, T, what):
    """Scaling by a power of two is exact in binary floating point as long as nothing leaves the normal range, so the
    transforms of 2^e x must be bit-for-bit 2^e times the transforms of x (components that fall below the smallest normal
    number of the type - 1.2e-38 in single precision - are rounded to the subnormal grid and compared on it), and weak
    signals must survive the round trip just as strong ones do."""
    e = case.get("amp_exp", 0)
    if not e or x.dtype.kind not in "fc":
        return
    s = 2.0 ** e
    xs, ys = x * s, y * s
    ctx.require(xs.dtype == x.dtype, "harness: scaling changed the dtype")
    def exact(got, want, msg):
        got, want = np.asarray(got), np.asarray(want)
        ctx.require(got.shape == want.shape and got.dtype == want.dtype, msg + ": shape / dtype %s %s vs %s %s" % (got.shape, got.dtype, want.shape, want.dtype))
        rt = np.float32 if got.dtype in (np.complex64, np.float32) else (np.float64 if got.dtype in (np.complex128, np.float64) else None)
        if rt is None or not np.array_equal(got, want):
            if rt is None:
                ctx.equal(got, want, msg)
                return
            g, w = np.ascontiguousarray(got).view(rt).astype(np.float64), np.ascontiguousarray(want).view(rt).astype(np.float64)
            fin = np.finfo(rt)
            normal = np.abs(w) >= float(fin.tiny)
            bad = (normal & (g != w)) | (~normal & (np.abs(g - w) > 2 * float(fin.smallest_subnormal)))
            if bad.any():
                ctx.equal(got, want, msg)               # reports the first differing entry
            ctx.classes["homogeneity_compared_on_the_subnormal_grid"] += 1
    Xs = fwd(xs, delta)
    exact(Xs, X * s, "%s(2^%d x) == 2^%d %s(x) exactly" % (what, e, e, what))
    yis = inv(ys, df)
    exact(yis, yi * s, "i%s(2^%d X) == 2^%d i%s(X) exactly" % (what, e, e, what))
    ctx.close(inv(Xs, df), xs.astype(np.complex128), T, "i%s(%s(x)) == x at amplitude 2^%d" % (what, what, e), scale=norm(xs))


def spacing(case):
    """The same spacing as a NumPy scalar of another type (a pixel scale read from a float32 array or an integer header
    card): float(numpy.float32(d)) is one exact real number, the transforms must treat it as such."""
    d, how = case["delta"], case.get("delta_as", "python")
    if how == "float32":
        d32 = np.float32(d)
        return d32, float(d32)
    if how == "int32" and isinstance(d, int):
        return np.int32(d), float(d)
    if how == "float64_0d":
        return np.array(float(d)), float(d)
    return d, d


def body_1d(ctx, case):
    x, y, delta, where = case["x"], case["y"], case["delta"], case["where"]
    delta_given, delta = spacing(case)
    ft, ift = entry("ft", where), entry("ift", where)
    N = x.shape[-1]
    df = 1.0 / (N * delta)
    T = tol_for(case)
    ctx.case(case, nontrivial=(N % 2 == 1 and N >= 3) or x.ndim > 1, classes=classes_for(case, False))
    x0 = x.copy()
    X = ft(x, delta)
    ctx.equal(x, x0, "ft modified its input")
    nx = norm(x)
    want = dft.ft(x, delta)
    ctx.close(X, want, T, "%s.ft vs centred DFT (N=%d)" % (where, N), scale=nx * delta * math.sqrt(N))
    xi = ift(X, df)
    ctx.close(xi, x.astype(np.complex128), T, "ift(ft(x)) == x (N=%d)" % N, scale=nx)
    # ift vs oracle on an arbitrary spectrum, and the other round trip
    Y = y
    yi = ift(Y, df)
    ctx.close(yi, dft.ift(Y, df), T, "%s.ift vs centred inverse DFT (N=%d)" % (where, N), scale=norm(Y) * df * math.sqrt(N))
    ctx.close(ft(yi, delta), Y, T, "ft(ift(X)) == X (N=%d)" % N, scale=norm(Y))
    # Parseval
    lhs = float(np.sum(np.abs(x.astype(np.complex128)) ** 2) * delta)
    rhs = float(np.sum(np.abs(X) ** 2) * df)
    ctx.close(rhs, lhs, T, "Parseval sum|x|^2 delta == sum|X|^2 delta_f", scale=max(lhs, 1e-300))
    # linearity
    a, b = case["a"], case["b"]
    ctx.close(ft(a * x + b * y, delta), a * X + b * ft(y, delta), T, "ft linearity", scale=(abs(a) * nx + abs(b) * norm(y) + 1e-300) * delta * math.sqrt(N))
    # batch == per item
    if x.ndim > 1:
        flat = x.reshape(-1, N)
        per = np.stack([ft(flat[i], delta) for i in range(flat.shape[0])]).reshape(X.shape)
        ctx.close(X, per, max(1e-13, T * 1e-3), "ft batch == per item", scale=nx * delta * math.sqrt(N))
        peri = np.stack([ift(Y.reshape(-1, N)[i], df) for i in range(flat.shape[0])]).reshape(yi.shape)
        ctx.close(yi, peri, max(1e-13, T * 1e-3), "ift batch == per item", scale=norm(Y) * df * math.sqrt(N))
    homogeneity(ctx, case, ft, ift, x, y, X, yi, delta, df, T, "ft")
    if case.get("delta_as", "python") != "python" and x.dtype.kind in "fciu" and tol_for(case) == TOL:
        # the spacing handed over as a NumPy scalar of another type is the same number
        ctx.close(ft(x, delta_given), X, 1e-13, "ft(x, %s spacing) == ft(x, the same spacing as a Python float)" % type(delta_given).__name__, scale=nx * delta * math.sqrt(N), name="typed spacing ft")
        dfg = type(delta_given)(df) if not isinstance(delta_given, np.ndarray) else np.array(df)
        if not isinstance(dfg, np.integer):
            ctx.close(ift(Y, dfg), ift(Y, float(dfg)), 1e-13, "ift(X, %s spacing) == ift(X, the same spacing as a Python float)" % type(dfg).__name__, scale=norm(Y) * float(dfg) * math.sqrt(N), name="typed spacing ift")
    # shift theorem (cyclic shift by k samples)
    k = case["k"]
    c = N // 2
    ph = np.exp(-2j * np.pi * ((k * (np.arange(N) - c)) % N) / N)
    ctx.close(ft(np.roll(x, k, axis=-1), delta), X * ph, T, "shift theorem (k=%d)" % k, scale=nx * delta * math.sqrt(N))


def body_2d(ctx, case):
    x, y, delta, where = case["x"], case["y"], case["delta"], case["where"]
    delta_given, delta = spacing(case)
    ft2, ift2 = entry("ft2", where), entry("ift2", where)
    N = x.shape[-1]
    df = 1.0 / (N * delta)
    T = tol_for(case)
    ctx.case(case, nontrivial=True, classes=classes_for(case, True))
    x0 = x.copy()
    X = ft2(x, delta)
    ctx.equal(x, x0, "ft2 modified its input")
    nx = norm(x)
    ctx.close(X, dft.ft2(x, delta), T, "%s.ft2 vs centred 2-D DFT (N=%d)" % (where, N), scale=nx * delta ** 2 * N)
    ctx.close(ift2(X, df), x.astype(np.complex128), T, "%s.ift2(ft2(x)) == x (N=%d, batch %s)" % (where, N, x.shape[:-2]), scale=nx)
    Y = y
    yi = ift2(Y, df)
    ctx.close(yi, dft.ift2(Y, df), T, "%s.ift2 vs centred inverse 2-D DFT (N=%d, batch %s)" % (where, N, x.shape[:-2]), scale=norm(Y) * df ** 2 * N)
    ctx.close(ft2(yi, delta), Y, T, "ft2(ift2(X)) == X", scale=norm(Y))
    lhs = float(np.sum(np.abs(x.astype(np.complex128)) ** 2) * delta ** 2)
    rhs = float(np.sum(np.abs(X) ** 2) * df ** 2)
    ctx.close(rhs, lhs, T, "Parseval 2-D", scale=max(lhs, 1e-300))
    a, b = case["a"], case["b"]
    ctx.close(ft2(a * x + b * y, delta), a * X + b * ft2(y, delta), T, "ft2 linearity", scale=(abs(a) * nx + abs(b) * norm(y) + 1e-300) * delta ** 2 * N)
    homogeneity(ctx, case, ft2, ift2, x, y, X, yi, delta, df, T, "ft2")
    if case.get("delta_as", "python") != "python" and x.dtype.kind in "fciu" and tol_for(case) == TOL:
        # the spacing handed over as a NumPy scalar of another type is the same number
        ctx.close(ft2(x, delta_given), X, 1e-13, "ft2(x, %s spacing) == ft2(x, the same spacing as a Python float)" % type(delta_given).__name__, scale=nx * delta ** 2 * N, name="typed spacing ft2")
        dfg = type(delta_given)(df) if not isinstance(delta_given, np.ndarray) else np.array(df)
        if not isinstance(dfg, np.integer):
            ctx.close(ift2(Y, dfg), ift2(Y, float(dfg)), 1e-13, "ift2(X, %s spacing) == ift2(X, the same spacing as a Python float)" % type(dfg).__name__, scale=norm(Y) * float(dfg) ** 2 * N, name="typed spacing ift2")
    if x.ndim == 2:
        # a second function of the same name and signature is exported by the sub-package: aotools.turbulence.ift2
        import aotools.turbulence as _tb
        ctx.close(_tb.ift2(Y, df), dft.ift2(Y, df), T, "aotools.turbulence.ift2 vs centred inverse 2-D DFT (N=%d)" % N, scale=norm(Y) * df ** 2 * N, name="turbulence.ift2 vs oracle")
        ctx.close(_tb.ift2(X, df), x.astype(np.complex128), T, "aotools.turbulence.ift2(ft2(x)) == x (N=%d)" % N, scale=nx, name="turbulence.ift2 round trip")
    if x.ndim > 2:
        flat = x.reshape((-1, N, N))
        per = np.stack([ft2(flat[i], delta) for i in range(flat.shape[0])]).reshape(X.shape)
        ctx.close(X, per, max(1e-13, T * 1e-3), "ft2 batch == per item", scale=nx * delta ** 2 * N)
        fy = Y.reshape((-1, N, N))
        peri = np.stack([ift2(fy[i], df) for i in range(fy.shape[0])]).reshape(yi.shape)
        ctx.close(yi, peri, max(1e-13, T * 1e-3), "ift2 batch == per item", scale=norm(Y) * df ** 2 * N)


# ------------------------------------------------------------------ continuous-transform approximation

@st.composite
def gauss_cases(draw):
    N = draw(st.integers(32, 65))
    delta = draw(gen.logfloat(1e-2, 10))
    # resolved (spectrum at Nyquist exp(-2 pi^2 sigma^2/4) < 3e-9) and contained (>= 6 sigma to the edge)
    sig = draw(st.floats(2.0, (N // 2 - 2) / 6.0)) * delta
    sh = draw(st.integers(-2, 2))
    return {"N": N, "delta": delta, "sigma": sig, "shift": sh, "where": draw(st.sampled_from(["module", "package"])),
            "twod": draw(st.booleans())}


def gauss_body(ctx, case):
    N, delta, sig, sh, where = case["N"], case["delta"], case["sigma"], case["shift"], case["where"]
    c = N // 2
    xs = (np.arange(N) - c - sh) * delta
    fs = (np.arange(N) - c) / (N * delta)
    g = np.exp(-xs ** 2 / (2 * sig ** 2))
    G = sig * math.sqrt(2 * math.pi) * np.exp(-2 * (math.pi * sig * fs) ** 2) * np.exp(-2j * np.pi * fs * sh * delta)
    ctx.case(case, nontrivial=bool(N % 2 or sh), classes=["odd" if N % 2 else "even", "2d" if case["twod"] else "1d"])
    if case["twod"]:
        got = entry("ft2", where)(np.outer(g, g), delta)
        want = np.outer(G, G)
    else:
        got = entry("ft", where)(g, delta)
        want = G
    ctx.close(got, want, 1e-6, "centred Gaussian -> analytic Gaussian (N=%d, shift=%d)" % (N, sh))


# ------------------------------------------------------------------ real-input variants

@st.composite
def real_cases(draw):
    twod = draw(st.booleans())
    N = draw(st.integers(1, 20 if twod else 64))
    batch = tuple(draw(st.sampled_from([(), (), (2,), (2, 2)])))
    M = draw(st.integers(1, 20)) if (twod and draw(st.integers(0, 2)) == 0) else N          # detector frames are often not square
    if twod and draw(st.integers(0, 5)) == 0:
        M = max(1, N + draw(st.sampled_from([-1, 1, 2, -2])))                               # ... or nearly square
    shape = batch + ((M, N) if twod else (N,))
    return {"x": draw(gen.float_array(shape, kind=draw(st.sampled_from(["dense", "dense", "sparse"])))),
            "delta": draw(gen.logfloat(1e-3, 1e3)), "twod": twod, "where": draw(st.sampled_from(["module", "package"]))}


KF_ODD = "C09-real-odd-length"


def real_body(ctx, case):
    x, delta, twod, where = case["x"], case["delta"], case["twod"], case["where"]
    N = x.shape[-1]
    odd = N % 2 == 1
    # open known finding: the real inverse has no length argument, so odd lengths cannot round-trip;
    # only the round-trip assertion is skipped for odd N, the forward half-spectrum and Parseval stay asserted.
    skip_rt = odd and ctx.is_open(KF_ODD)
    if skip_rt:
        ctx.exclude(KF_ODD)
    ctx.case(case, nontrivial=N >= 2, classes=["2d" if twod else "1d", "even" if not odd else "odd", "batch%d" % (x.ndim - (2 if twod else 1))])
    df = 1.0 / (N * delta)
    nx = norm(x)
    if not twod:
        rft, irft = entry("rft", where), entry("irft", where)
        H = rft(x, delta)
        ctx.require(H.shape == x.shape[:-1] + (N // 2 + 1,), "rft shape %s" % (H.shape,))
        half = np.fft.ifftshift(H, axes=-1)
        ctx.close(half, dft.half_ft(x, delta), TOL, "ifftshift(rft(x)) vs non-negative half of the centred transform (N=%d)" % N, scale=nx * delta * math.sqrt(N))
        if not skip_rt:
            back = irft(H, df)
            ctx.close(back, x, TOL, "irft(rft(x, d), 1/(N d)) == x (N=%d)" % N, scale=nx)
        w = np.full(N // 2 + 1, 2.0)
        w[0] = 1.0
        if N % 2 == 0:
            w[-1] = 1.0
        lhs = float(np.sum(x ** 2) * delta)
        rhs = float(np.sum(w * np.abs(half) ** 2) * df)
        ctx.close(rhs, lhs, TOL, "Hermitian-weighted Parseval on the half spectrum", scale=max(lhs, 1e-300))
    elif x.shape[-2] != N:
        # rectangular frame (M, N): with one spacing and delta_f = 1/(N delta), N the last axis as in every other transform,
        # the 2-D pairs must still be inverse pairs
        M = x.shape[-2]
        ctx.classes["rectangular_2d"] += 1
        ft2, ift2, rft2, irft2 = entry("ft2", where), entry("ift2", where), entry("rft2", where), entry("irft2", where)
        ctx.close(ift2(ft2(x, delta), df), x.astype(np.complex128), TOL, "ift2(ft2(x, d), 1/(N d)) == x on a %d x %d frame" % (M, N), scale=nx)
        H = rft2(x, delta)
        ctx.require(H.shape == x.shape[:-2] + (M, N // 2 + 1), "rft2 shape %s on a %d x %d frame" % (H.shape, M, N))
        if not skip_rt:
            ctx.close(irft2(H, df), x, TOL, "irft2(rft2(x, d), 1/(N d)) == x on a %d x %d frame" % (M, N), scale=nx)
    else:
        rft2, irft2 = entry("rft2", where), entry("irft2", where)
        H = rft2(x, delta)
        ctx.require(H.shape == x.shape[:-2] + (N, N // 2 + 1), "rft2 shape %s" % (H.shape,))
        if not skip_rt:
            back = irft2(H, df)
            ctx.close(back, x, TOL, "irft2(rft2(x, d), 1/(N d)) == x (N=%d)" % N, scale=nx)
        half = np.fft.ifftshift(H, axes=(-1, -2))
        full = dft.ft2(x, delta)        # centred full spectrum; bring to standard order and cut
        c = N // 2
        std = np.roll(full, (-c, -c), axis=(-2, -1))[..., :, :N // 2 + 1]
        ctx.close(half, std, TOL, "ifftshift(rft2(x)) vs half of the centred 2-D transform (N=%d)" % N, scale=nx * delta ** 2 * N)
        w = np.full(N // 2 + 1, 2.0)
        w[0] = 1.0
        if N % 2 == 0:
            w[-1] = 1.0
        lhs = float(np.sum(x ** 2) * delta ** 2)
        rhs = float(np.sum(w * np.abs(half) ** 2) * df ** 2)
        ctx.close(rhs, lhs, TOL, "Hermitian-weighted Parseval 2-D", scale=max(lhs, 1e-300))


# ------------------------------------------------------------------ cubes larger than any round block size

def cube_cases(tier):
    out = []
    for fn in ("ft2", "ift2", "ft", "ift", "rft2"):
        for dt in ("complex128", "float64", "complex64"):
            if fn == "rft2" and dt != "float64":
                continue
            out.append({"fn": fn, "dtype": dt, "shape": (17, 512, 512) if fn.endswith("2") else (65, 65539), "where": "module" if len(out) % 2 else "package"})
    return out


def cube_body(ctx, case):
    """A long sequence of frames (more than 2^22 samples) is transformed like its frames one by one, and the caller's
    cube is left alone."""
    import hashlib
    fn, where = case["fn"], case["where"]
    f = entry(fn, where)
    rng = gen.np_rng(hash(fn + case["dtype"]) % 2**32 if False else len(fn) * 1000 + len(case["dtype"]))
    shape = case["shape"]
    x = rng.integers(-64, 65, size=shape) / 8.0
    if case["dtype"].startswith("complex"):
        x = x + 1j * (rng.integers(-64, 65, size=shape) / 8.0)
    x = x.astype(case["dtype"])
    ctx.case(case, nontrivial=True, classes=[fn, case["dtype"]])
    N = shape[-1]
    delta = 0.5
    arg = delta if fn in ("ft", "ft2", "rft2") else 1.0 / (N * delta)
    h0 = hashlib.blake2b(x.tobytes(), digest_size=16).digest()
    X = f(x, arg)
    ctx.require(hashlib.blake2b(x.tobytes(), digest_size=16).digest() == h0, "%s modified its argument (a %s cube of %s)" % (fn, case["dtype"], shape))
    ctx.require(not np.shares_memory(X, x), "%s returned an array that shares memory with its argument (a %s cube of %s)" % (fn, case["dtype"], shape))
    for i in (0, shape[0] // 2, shape[0] - 1):
        one = f(x[i], arg)
        ctx.close(X[i], one, 1e-12 if case["dtype"] != "complex64" else 1e-5, "%s of a %s cube of %s, frame %d == %s of that frame alone" % (fn, case["dtype"], shape, i, fn), scale=norm(one) / math.sqrt(one.size) * 30)
    if fn in ("ft2", "ft"):
        inv = entry("i" + fn, where)
        back = inv(X, 1.0 / (N * delta))
        ctx.close(back[::8], x[::8].astype(np.complex128), 1e-12 if case["dtype"] != "complex64" else 1e-5, "i%s(%s(x)) == x on a %s cube of %s" % (fn, fn, case["dtype"], shape), scale=12.0)
        dim = 2 if fn == "ft2" else 1
        lhs = float(np.sum(np.abs(x.astype(np.complex128)) ** 2)) * delta ** dim
        rhs = float(np.sum(np.abs(X.astype(np.complex128)) ** 2)) * (1.0 / (N * delta)) ** dim
        ctx.close(rhs, lhs, 1e-10 if case["dtype"] != "complex64" else 1e-4, "Parseval on a %s cube of %s" % (case["dtype"], shape), scale=lhs)


# ------------------------------------------------------------------ concurrent calls from threads of one process

def thread_cases(tier):
    return [{"fn": fn, "shape": sh} for fn in ("ft2", "ift2", "ft", "ift", "rft2", "irft2") for sh in ((128, 128), (3, 96, 96))]


def thread_body(ctx, case):
    """Frames transformed at the same time by threads of one process (a thread pool over frames) come out as the frames
    transformed one after the other."""
    fn, shape = case["fn"], tuple(case["shape"])
    f = entry(fn, "module")
    ctx.case(case, nontrivial=True, classes=[fn])
    rng = gen.np_rng(len(fn) * 31 + len(shape))
    N = shape[-1]
    xs = []
    for i in range(8):
        x = rng.normal(size=shape)
        if fn in ("ft2", "ift2", "ft", "ift") and i % 2:
            x = x + 1j * rng.normal(size=shape)
        if fn == "irft2":
            x = entry("rft2", "module")(x, 0.5)
        xs.append(x)
    arg = 0.5 if fn in ("ft", "ft2", "rft2") else 1.0 / (N * 0.5)
    ctx.thread_agreement([(lambda x=x: f(x, arg)) for x in xs], fn)


def self_test():
    dft.self_test()


LAWS = [
    plain_law("threads", thread_cases, thread_body, shards={"quick": 4, "thorough": 4}),
    plain_law("large_cubes", cube_cases, cube_body, shards={"quick": 4, "thorough": 4}),
    given_law("dft1_xl", sig1(False, 400), body_1d, {"quick": 0, "thorough": 150}, shards={"quick": 1, "thorough": 16}),
    given_law("dft2_xl", sig1(True, 64), body_2d, {"quick": 0, "thorough": 60}, shards={"quick": 1, "thorough": 16}),
    given_law("dft1", sig1(False), body_1d, {"quick": 600, "thorough": 10000}, shards={"quick": 3, "thorough": 16}),
    given_law("dft2", sig1(True), body_2d, {"quick": 400, "thorough": 6250}, shards={"quick": 3, "thorough": 16}),
    given_law("gaussian", gauss_cases(), gauss_body, {"quick": 300, "thorough": 3750}, shards={"quick": 3, "thorough": 16}),
    given_law("real", real_cases(), real_body, {"quick": 400, "thorough": 6250}, shards={"quick": 3, "thorough": 16}),
]
