"""C10 - optical propagators are linear and conserve power."""
import math

import numpy as np
from hypothesis import strategies as st

from ..core import given_law, plain_law
from .. import gen

RULE = ("N in 2..48 odd and even (thorough to 96); complex fields: dense noise, sparse impulses, constant, dyadic, masked phase "
        "screens; wavelength 0.3-10 um; d1 log-uniform 1e-5..1; |z| log-uniform 1e-3..1e6 both signs; magnification "
        "0.2..5 including exactly 1; focal length both signs; scalars passed as Python float, numpy.float64 or int. "
        "Oracle: sum|U_out|^2 d_out^2 == sum|U_in|^2 d_in^2 (1e-9), P(a u + b v) == a P(u) + b P(v) (1e-9), finite "
        "output, input unchanged. Non-trivial = non-constant field and (m != 1 or z < 0). Distinct = canonical JSON."
        " Also: coincidences d2 ~ one-step spacing, d2 ~ d1, z ~ N d1^2 / wvl with relative offsets 0 .. 1e-3."
        " Scalars also as one-element arrays (compared with the plain-number call to eps x largest kernel phase)."
        " Law threads: all four propagators, different geometries on one grid size.")
ASSUMPTIONS = ["square grids, odd and even", "d_out: angularSpectrum=outputSpacing, oneStep=|lambda z/(N d1)|, twoStep=d2, lens=|lambda f/(N d1)|"]

TOL = 1e-9


def op():
    from aotools import opticalpropagation
    return opticalpropagation


@st.composite
def field(draw, N):
    kind = draw(st.sampled_from(["dense", "sparse", "const", "dyadic", "screen"]))
    if kind == "screen":
        ph = draw(gen.float_array((N, N), kind="dense", lo=-10, hi=10))
        c = np.arange(N) - N / 2 + 0.5
        mask = (c[None, :] ** 2 + c[:, None] ** 2 <= (N / 2) ** 2).astype(float)
        return np.exp(1j * ph) * mask, kind
    return draw(gen.complex_array((N, N), kind=kind)), kind


def scalar(draw, v):
    how = draw(st.sampled_from(["float", "float", "np64", "np0d"]))
    if how == "np64":
        return np.float64(v)
    if how == "np0d":
        return np.asarray(v, dtype=np.float64)[()]
    return float(v)


@st.composite
def cases(draw, nmax=48, sizes=None):
    N = draw(st.one_of(st.integers(1, nmax // 2).map(lambda k: 2 * k), st.integers(2, nmax)))      # odd grids too: "any complex input"
    if sizes:
        N = draw(st.sampled_from(sizes))
    u, kind = draw(field(N))
    v, _ = draw(field(N))
    prop = draw(st.sampled_from(["angular", "angular", "one", "two", "two", "lens"]))
    wvl = draw(gen.logfloat(0.3e-6, 10e-6))
    d1 = draw(gen.logfloat(1e-5, 1.0))
    z = draw(gen.signed_logfloat(1e-3, 1e6))
    # "any magnification": pupil samples of a centimetre onto focal samples of a micron are a magnification of 1e-4
    m = draw(st.one_of(st.just(1.0), st.floats(0.2, 5.0), st.sampled_from([0.5, 2.0, 1.0]), gen.logfloat(1e-9, 1e6)))
    zi = draw(st.booleans())
    if zi and abs(z) >= 1:
        z = int(round(z))
    # coincidences between quantities of the same dimension that independent random floats never produce: the requested
    # output spacing (nearly) equal to the natural spacing of the single-FFT propagator, to the input spacing, or the
    # distance at the critical-sampling value N d1^2 / wvl
    coin = draw(st.sampled_from([None, None, None, None, "d2_one_step", "d2_near_d1", "z_critical"]))
    eps = draw(st.sampled_from([0.0, 1e-12, -1e-10, 1e-8, -1e-7, 3e-6, -8e-6, 1e-4, -1e-3]))
    if coin == "z_critical":
        z = math.copysign(N * d1 * d1 / wvl * (1 + eps), z)
    elif coin == "d2_one_step":
        m = abs(wvl * z / (N * d1)) / d1 * (1 + eps)
    elif coin == "d2_near_d1":
        m = 1 + eps
    return {"u": u, "v": v, "kind": kind, "prop": prop, "wvl": wvl, "d1": d1, "z": z, "m": m,
            "a": complex(draw(gen.dyadic(-2, 2, 8)), draw(gen.dyadic(-2, 2, 8))), "b": complex(draw(gen.dyadic(-2, 2, 8)), draw(gen.dyadic(-2, 2, 8))),
            "np_scalars": draw(st.booleans()), "single": draw(st.sampled_from([False, False, False, True])), "coin": coin}


def run_prop(case, U):
    o = op()
    wvl, d1, z, m = case["wvl"], case["d1"], case["z"], case["m"]
    d2 = d1 if m == 1.0 else m * d1
    if case["np_scalars"]:
        wvl, d1c, zc, d2c = np.float64(wvl), np.float64(d1), np.float64(z), np.float64(d2)
    else:
        d1c, zc, d2c = d1, z, d2
    N = U.shape[0]
    p = case["prop"]
    if p == "angular":
        return o.angularSpectrum(U, wvl, d1c, d2c, zc), d2
    if p == "one":
        return o.oneStepFresnel(U, wvl, d1c, zc), abs(float(wvl) * z / (N * d1))
    if p == "two":
        return o.twoStepFresnel(U, wvl, d1c, d2c, zc), d2
    return o.lensAgainst(U, wvl, d1c, zc), abs(float(wvl) * z / (N * d1))


def body(ctx, case):
    u, v = case["u"], case["v"]
    if case.get("single") and case["kind"] == "dyadic":
        # the same (exactly representable) samples stored in single precision: a field is a field
        u, v = u.astype(np.complex64), v.astype(np.complex64)
        ctx.classes["complex64_field"] += 1
    const = bool(np.all(u == u.flat[0]))
    ctx.case(case, nontrivial=(not const) and (case["m"] != 1.0 or case["z"] < 0),
             classes=[case["prop"], case["kind"], "m1" if case["m"] == 1.0 else "m_ne_1", "z_neg" if case["z"] < 0 else "z_pos",
                      "np_scalars" if case["np_scalars"] else "py_scalars"] + (["coincidence_" + case["coin"]] if case.get("coin") else []))
    u0 = u.copy()
    # history first: calls whose scalar arguments differ from the case's by a few parts in 1e4 (same field, same grid);
    # everything asserted below is asserted on a call that FOLLOWS them, so nothing may be inherited from them
    for fld, fac in (("wvl", 1 + 3e-4), ("z", 1 - 2e-4), ("d1", 1 + 1e-4)):
        if isinstance(case[fld], int):
            continue
        with np.errstate(all="ignore"):
            run_prop(dict(case, **{fld: case[fld] * fac}), u)
    with np.errstate(all="ignore"):
        out, dout = run_prop(case, u)
    ctx.equal(u, u0, "%s modified its input field" % case["prop"])
    out = np.asarray(out)
    ctx.require(out.shape == u.shape, "%s output shape %s" % (case["prop"], out.shape))
    ctx.require(bool(np.all(np.isfinite(out))), "%s output not finite (m=%r, z=%r [%s])" % (case["prop"], case["m"], case["z"], type(case["z"]).__name__))
    pin = float(np.sum(np.abs(u.astype(np.complex128)) ** 2)) * case["d1"] ** 2
    pout = float(np.sum(np.abs(out) ** 2)) * dout ** 2
    ctx.close(pout, pin, TOL, "%s power conservation (m=%r, z=%r)" % (case["prop"], case["m"], case["z"]), scale=max(pin, 1e-300))
    # history with a near-coincidence: a preceding call whose scalar arguments differ by a few parts in 1e4 (same field,
    # same grid) must leave no trace on this call
    for fld, fac in (("wvl", 1 + 3e-4), ("z", 1 - 2e-4), ("d1", 1 + 1e-4)):
        near = dict(case)
        near[fld] = case[fld] * fac
        if isinstance(case[fld], int):
            continue
        with np.errstate(all="ignore"):
            run_prop(near, u)
            again, _ = run_prop(case, u)
        ctx.equal(np.asarray(again), out, "%s: result depends on a preceding call with a slightly different %s" % (case["prop"], fld))
    # homogeneity over many decades of amplitude (a field of 1e-12 is as good a field as one of 1)
    for sfac in ((1e-12, 1e-9, 1e7) if u.dtype != np.complex64 else (2.0 ** -40, 2.0 ** -30, 2.0 ** 23)):      # exact in the field's own precision
        with np.errstate(all="ignore"):
            os_, _ = run_prop(case, u * u.dtype.type(sfac))
        ctx.close(np.asarray(os_), sfac * out, TOL, "%s: P(s u) == s P(u)" % case["prop"], scale=sfac * (float(np.sqrt(np.sum(np.abs(out) ** 2))) or 1.0), name=case["prop"] + " amplitude homogeneity")
    # scalar parameters read from a float32 table (wavelength, pixel scale, layer altitude): float(numpy.float32(x)) is one
    # exact number; handing it over as the float32 scalar must not cost power conservation
    if not case["np_scalars"] and not isinstance(case["z"], int) and case["m"] == 1.0:
        c32 = dict(case, wvl=float(np.float32(case["wvl"])), d1=float(np.float32(case["d1"])), z=float(np.float32(case["z"])))
        o = op()
        N_ = u.shape[0]
        for which in ("wvl", "d1", "z"):
            args = {k: (np.float32(c32[k]) if k == which else c32[k]) for k in ("wvl", "d1", "z")}
            with np.errstate(all="ignore"):
                if case["prop"] == "angular":
                    o32, dd = o.angularSpectrum(u, args["wvl"], args["d1"], c32["d1"], args["z"]), c32["d1"]
                elif case["prop"] == "two":
                    o32, dd = o.twoStepFresnel(u, args["wvl"], args["d1"], c32["d1"], args["z"]), c32["d1"]
                elif case["prop"] == "one":
                    o32, dd = o.oneStepFresnel(u, args["wvl"], args["d1"], args["z"]), abs(c32["wvl"] * c32["z"] / (N_ * c32["d1"]))
                else:
                    o32, dd = o.lensAgainst(u, args["wvl"], args["d1"], args["z"]), abs(c32["wvl"] * c32["z"] / (N_ * c32["d1"]))
            p32in = float(np.sum(np.abs(u.astype(np.complex128)) ** 2)) * c32["d1"] ** 2
            p32 = float(np.sum(np.abs(np.asarray(o32)) ** 2)) * dd ** 2
            ctx.close(p32, p32in, TOL, "%s power conservation with %s given as a numpy.float32 scalar" % (case["prop"], which), scale=max(p32in, 1e-300), name=case["prop"] + " float32 scalar argument")
    # a scalar parameter taken as a one-element slice of a table (wavelengths[k:k+1], spacings[:1]) is that number
    if not case["np_scalars"] and not isinstance(case["z"], int) and u.dtype == np.complex128 and case.get("coin") is None and (u.shape[0] + int(abs(case["a"].real) * 8)) % 3 == 0:
        o = op()
        d2v = case["d1"] if case["m"] == 1.0 else case["m"] * case["d1"]
        for which in ("wvl", "d1", "d2", "z"):
            vals = {"wvl": case["wvl"], "d1": case["d1"], "d2": d2v, "z": case["z"]}
            if which == "d2" and case["prop"] in ("one", "lens"):
                continue
            vals[which] = np.array([vals[which]], dtype=np.float64)
            with np.errstate(all="ignore"):
                if case["prop"] == "angular":
                    r1 = o.angularSpectrum(u, vals["wvl"], vals["d1"], vals["d2"], vals["z"])
                elif case["prop"] == "two":
                    r1 = o.twoStepFresnel(u, vals["wvl"], vals["d1"], vals["d2"], vals["z"])
                elif case["prop"] == "one":
                    r1 = o.oneStepFresnel(u, vals["wvl"], vals["d1"], vals["z"])
                else:
                    r1 = o.lensAgainst(u, vals["wvl"], vals["d1"], vals["z"])
            r1 = np.asarray(r1)
            ctx.require(r1.size == out.size, "%s with %s given as a one-element array returns shape %s" % (case["prop"], which, r1.shape))
            # NumPy rounds scalar and array arithmetic differently in the last bit, and the kernels hold phases of up to
            # phimax radians: the two calls agree to eps * phimax (not judged where that leaves nothing to compare)
            N_ = u.shape[0]
            lz = float(case["wvl"]) * abs(float(case["z"]))
            dout_ = d2v if case["prop"] in ("angular", "two") else lz / (N_ * case["d1"])
            mm = dout_ / case["d1"]
            phimax = math.pi / lz * (N_ * N_ / 2.0) * (case["d1"] ** 2 * (1 + abs(1 - mm)) + dout_ ** 2 * (1 + abs(mm - 1) / mm)) + math.pi * lz / max(mm, 1e-300) / (2 * case["d1"] ** 2)
            if case["prop"] == "two" and mm != 1.0:
                phimax *= 1.0 + 1.0 / abs(1.0 - mm)          # the intermediate plane lies at z / (1 - m)
            tol1 = 1e-12 + 1e4 * 2.3e-16 * phimax
            if tol1 > 1e-6:
                ctx.classes["one_element_array_not_compared_phases_too_large"] += 1
                continue
            nrm_ = float(np.sqrt(np.sum(np.abs(out) ** 2))) or 1.0
            dif_ = float(np.sqrt(np.sum(np.abs(r1.reshape(out.shape) - out) ** 2))) / nrm_
            ctx.residual("one-element array argument vs number / tol", dif_ / tol1, 1.0)
            ctx.require(dif_ <= tol1, "%s with %s given as a one-element array differs from the call with the number (relative L2 %.3g, tolerance %.3g)" % (case["prop"], which, dif_, tol1))
        ctx.classes["one_element_array_arguments"] += 1
    a, b = case["a"], case["b"]
    with np.errstate(all="ignore"):
        ov, _ = run_prop(case, v)
        w = a * u.astype(np.complex128) + b * v.astype(np.complex128)
        if not np.array_equal(w.astype(u.dtype).astype(np.complex128), w):
            ctx.classes["combination_not_representable_in_single_precision"] += 1     # nothing exact to compare with
            return
        oc, _ = run_prop(case, w.astype(u.dtype))
    sc = float(np.sqrt(np.sum(np.abs(a * out) ** 2) + np.sum(np.abs(b * ov) ** 2))) or 1.0
    ctx.close(oc, a * out + b * np.asarray(ov), TOL, "%s linearity" % case["prop"], scale=sc)


# ------------------------------------------------------------------ concurrent calls from threads of one process

def thread_cases(tier):
    return [{"prop": p_, "N": N} for p_ in ("angular", "one", "two", "lens") for N in (128, 256)]


def thread_body(ctx, case):
    """Fields propagated at the same time by threads of one process (one thread per wavelength or layer, different
    geometries on the same grid size) come out as when propagated one after the other."""
    o = op()
    N = case["N"]
    ctx.case(case, nontrivial=True, classes=[case["prop"], "N%d" % N])
    rng = gen.np_rng(N + len(case["prop"]))
    thunks = []
    for i in range(8):
        u = rng.normal(size=(N, N)) + 1j * rng.normal(size=(N, N))
        wvl, d1, z = (0.5 + 0.1 * i) * 1e-6, 1e-3 * (1 + 0.05 * i), 10.0 * (1 + i) * (-1) ** i
        if case["prop"] == "angular":
            thunks.append(lambda u=u, wvl=wvl, d1=d1, z=z, i=i: o.angularSpectrum(u, wvl, d1, d1 * (1 + 0.1 * (i % 3)), z))
        elif case["prop"] == "two":
            thunks.append(lambda u=u, wvl=wvl, d1=d1, z=z, i=i: o.twoStepFresnel(u, wvl, d1, d1 * (1.5 + 0.1 * i), z))
        elif case["prop"] == "one":
            thunks.append(lambda u=u, wvl=wvl, d1=d1, z=z: o.oneStepFresnel(u, wvl, d1, z))
        else:
            thunks.append(lambda u=u, wvl=wvl, d1=d1, z=z: o.lensAgainst(u, wvl, d1, abs(z)))
    with np.errstate(all="ignore"):
        ctx.thread_agreement(thunks, case["prop"])


LAWS = [
    plain_law("threads", thread_cases, thread_body, shards={"quick": 4, "thorough": 4}),
    given_law("power_linear_xl", cases(384), body, {"quick": 0, "thorough": 60}, shards={"quick": 1, "thorough": 16}),
    # the grid sizes simulations are run at (beyond 512 samples, not only powers of two): an implementation may treat large
    # grids differently (blocking, chunking) from the small ones the other laws draw by the thousand
    given_law("power_linear_realistic_size", cases(48, sizes=[513, 600, 640, 768, 1000, 1024]), body, {"quick": 8, "thorough": 64}, shards={"quick": 4, "thorough": 16}),
    given_law("power_linear", cases(48), body, {"quick": 1200, "thorough": 12500}, shards={"quick": 3, "thorough": 16}),
    given_law("power_linear_large", cases(96), body, {"quick": 60, "thorough": 1500}, shards={"quick": 3, "thorough": 16}),
]
