"""C05 - infinite screen evolves by exactly one row per step, for any history."""
import math
import warnings

import numpy as np
from hypothesis import strategies as st
from hypothesis.stateful import RuleBasedStateMachine, initialize, rule

from ..core import given_law, machine_law, plain_law
from .. import gen
from ..oracles import vk
from ..scripted_rng import Scripted
from . import c04

RULE = ("histories on one screen object (both variants, requested sizes 2..14 incl. sizes != internal working size, scripted "
        "or real seeded Generator): add_row with a drawn innovation vector, read .scrn repeatedly, print (str/repr), hold a "
        "returned array and inspect it later, many(k<=60) rows in a row. Invariants after every step: exposed shape (N,N), "
        "finite, scrn[1:] == previous scrn[:-1] bit-exactly, scrn[0] == row predicted from the independently recovered "
        "maps (scripted generator), working array shape constant, previously returned arrays unchanged, read/print leave "
        "screen and generator state bit-identical. Stability (von Karman variant): per generated configuration the "
        "companion matrix of the row recursion has spectral radius < 1 and the theoretical covariance is its fixed point; "
        "long runs stay bounded. Non-trivial history: >=3 add_row interleaved with >=1 read/print. Distinct = canonical JSON."
        " Also: a never-read twin with the same seed must return the same rows; add_row() results are held un-copied; sibling-first construction as in C04."
        " The stability law also draws small screens (nx 2..9) at L0 of 1e9 .. 8e9 pixels (open finding C05-unstable-recursion-extreme-outer-scale excluded for that slice only)."
        " 9000-row histories on 4x4 / 3x3 screens with the exact shift check on every row; the caller marks the array it got read-only and reads again.")
ASSUMPTIONS = ["prediction uses maps recovered on a twin instance with identical parameters (C04 establishes what they must be)",
               "stationary covariance uniqueness follows from spectral radius < 1 (discrete Lyapunov equation)"]


class Model:
    def __init__(self, ctx, p):
        self.ctx, self.p = ctx, p
        self.scripted = p["gen"] == "scripted"
        self.rng = Scripted() if self.scripted else np.random.default_rng(p["seed"])
        c04.sibling_first(ctx, p["kind"], p)
        self.scr = c04.make(p["kind"], p, self.rng)
        # a twin with the same seed that is never read or printed, only stepped: reading must not matter
        self.twin = None if self.scripted else c04.make(p["kind"], p, np.random.default_rng(p["seed"]))
        self.N = p["nx"]
        self.wshape = self.scr._scrn.shape
        if self.scripted:
            twin_rng = Scripted()
            twin = c04.make(p["kind"], p, twin_rng)
            self.M, self.B = c04.recover_maps(twin, twin_rng)
        self.prev = np.array(self.scr.scrn, copy=True)
        self.held = []
        self.adds = 0
        self.reads = 0
        self.interleaved = False
        self.check_static()

    def state(self):
        return None if self.scripted else self.rng.bit_generator.state

    def check_static(self):
        s = self.scr.scrn
        self.ctx.require(s.shape == (self.N, self.N), "exposed screen has shape %s, requested (%d,%d)" % (s.shape, self.N, self.N))
        self.ctx.require(bool(np.all(np.isfinite(s))), "screen contains non-finite values")
        self.ctx.require(self.scr._scrn.shape == self.wshape, "working array changed shape: %s -> %s" % (self.wshape, self.scr._scrn.shape))

    def add(self, b):
        nxi = self.wshape[1]
        full_before = np.array(self.scr._scrn, copy=True)
        if self.scripted:
            bb = np.zeros(nxi)
            bb[:len(b)] = b[:nxi]
            self.rng.clear()
            self.rng.feed(bb)
        ret = self.scr.add_row()
        self.adds += 1
        if self.twin is not None:
            self.ctx.equal(np.asarray(self.twin.add_row()), np.asarray(ret), "step %d: a screen that was read / printed between steps returns a different screen from add_row() than a twin with the same seed that was only stepped" % self.adds)
        self.held.append((ret, np.array(ret, copy=True)))
        if len(self.held) > 6:
            self.held.pop(0)
        cur = np.array(self.scr.scrn, copy=True)
        self.check_static()
        self.ctx.equal(np.asarray(ret), cur, "add_row() return value differs from .scrn")
        self.ctx.equal(cur[1:], self.prev[:-1], "after add_row the old rows are not the previous screen shifted down by exactly one row")
        if self.scripted:
            want = (self.M @ full_before.ravel() + self.B @ bb)[:self.N]
            self.ctx.close(cur[0], want, 1e-11, "new row differs from the row predicted by the recovered maps", scale=float(np.max(np.abs(want))) or 1.0, name="predicted new row")
        for h, h0 in self.held:
            self.ctx.equal(h, h0, "an array returned earlier by .scrn/add_row was modified by a later step")
        self.prev = cur

    def read(self, how):
        before = np.array(self.scr._scrn, copy=True)
        st0 = self.state()
        q0 = len(self.rng.requests) if self.scripted else None
        if how == "scrn":
            a = self.scr.scrn
            b = self.scr.scrn
            self.ctx.equal(a, b, "two consecutive reads of .scrn differ")
            self.ctx.equal(a, self.prev, ".scrn differs from the screen after the last add_row")
        elif how == "str":
            str(self.scr)
        else:
            repr(self.scr)
        self.reads += 1
        if self.adds:
            self.interleaved = True
        self.ctx.equal(self.scr._scrn, before, "reading/printing the screen altered it")
        if self.scripted:
            self.ctx.require(len(self.rng.requests) == q0, "reading/printing the screen consumed random numbers")
        else:
            self.ctx.require(self.state() == st0, "reading/printing the screen advanced the random stream")
        self.check_static()

    def hold(self):
        a = self.scr.scrn
        self.held.append((a, np.array(a, copy=True)))
        # the handle is the caller's: what it does to its own view object (here: marking it read-only) is not the screen's business
        b = self.scr.scrn
        b.flags.writeable = False
        c = self.scr.scrn
        self.ctx.require(c.flags.writeable and c.shape == (self.N, self.N) and c.dtype == np.float64, "after the caller marked the array it got from .scrn read-only, a later read of .scrn returns a read-only / reshaped array (the same ndarray object is handed out again)")

    def apply(self, op):
        k = op["op"]
        if k == "add":
            self.add(np.asarray(op["b"], dtype=float))
        elif k == "many":
            r = gen.np_rng(op["seed"])
            for _ in range(op["k"]):
                self.add(r.normal(size=self.wshape[1]))
        elif k == "read":
            self.read(op["how"])
        elif k == "hold":
            self.hold()

    def nontrivial(self):
        return self.adds >= 3 and self.interleaved


@st.composite
def screen_params(draw):
    kind = draw(st.sampled_from(["vk", "fried"]))
    ps = draw(st.one_of(gen.logfloat(0.02, 0.5), st.sampled_from([1, 2])))
    p = {"kind": kind, "nx": draw(st.integers(2, 14)), "ps": ps, "r0": draw(st.one_of(gen.logfloat(0.05, 1.0), gen.logfloat(1e-3, 100.0))), "L0": ps * draw(c04.RATIO),
         "gen": draw(st.sampled_from(["scripted", "scripted", "real"])), "seed": draw(st.integers(0, 2**32 - 1)),
         "sib": draw(st.sampled_from([None, None, None, "r0,L0", "ps,r0,L0"])), "sibk": draw(st.sampled_from([2.0, 0.5]))}
    if kind == "vk":
        p["ncol"] = draw(st.integers(1, min(3, p["nx"])))
    else:
        p["factor"] = draw(st.integers(1, 3))
    return p


def make_machine(ctx, box):
    class M(RuleBasedStateMachine):
        def __init__(self):
            super().__init__()
            self.history = []
            box["history"] = self.history
            self.model = None

        @initialize(p=screen_params())
        def init(self, p):
            self.history.append({"op": "init", "p": p})
            self.model = Model(ctx, p)

        def _do(self, op):
            self.history.append(op)
            self.model.apply(op)

        @rule(b=st.lists(st.floats(-3, 3), min_size=0, max_size=17))
        def add_row(self, b):
            self._do({"op": "add", "b": b})

        @rule(k=st.integers(2, 60), seed=st.integers(0, 10**6))
        def many(self, k, seed):
            self._do({"op": "many", "k": k, "seed": seed})

        @rule(how=st.sampled_from(["scrn", "str", "repr"]))
        def read(self, how):
            self._do({"op": "read", "how": how})

        @rule()
        def hold(self):
            self._do({"op": "hold"})

        def teardown(self):
            if self.model is not None:
                m = self.model
                ctx.case(self.history, nontrivial=m.nontrivial(), classes=[m.p["kind"], m.p["gen"], "requested_ne_internal" if m.wshape[1] != m.N else "requested_eq_internal",
                                                                           "adds_ge_3" if m.adds >= 3 else "adds_lt_3"])
    return M


def replay_history(ctx, history):
    model = None
    for op in history:
        if op["op"] == "init":
            model = Model(ctx, op["p"])
        else:
            model.apply(op)


# ------------------------------------------------------------------ stability of the von Karman recursion

@st.composite
def stab_cases(draw):
    """The C04 configurations, and beyond them the band just below where the code refuses to construct (L0 of 3e8 .. 5e9
    pixels): whatever is constructed without complaint must be a stable recursion."""
    p = draw(c04.vk_cases(24))
    if draw(st.integers(0, 3)) == 0:
        p = dict(p, L0=float(p["ps"]) * draw(gen.logfloat(3e8, 5e9)))
        if draw(st.booleans()):
            # small screens: their joint covariance is better conditioned, so the code's refusal sets in later than for large ones
            nx = draw(st.integers(2, 9))
            p = dict(p, nx=nx, ncol=min(p["ncol"], nx), L0=float(p["ps"]) * draw(gen.logfloat(1e9, 8e9)))
    return p


KF_UNSTABLE = "C05-unstable-recursion-extreme-outer-scale"


def stab_body(ctx, p):
    from scipy import linalg
    rng = Scripted()
    c04.sibling_first(ctx, "vk", p)
    try:
        scr = c04.make("vk", p, rng)
    except (linalg.LinAlgError, np.linalg.LinAlgError):
        c04.refused(ctx, p)
        return
    nx, nc = p["nx"], p["ncol"]
    ctx.case(p, nontrivial=nc >= 2 and nx >= 4, classes=["ncol%d" % nc])
    M, B = c04.recover_maps(scr, rng, only_rows=range(min(nc + 1, nx)))
    A = M[:, :nc * nx]
    ctx.require(not np.any(M[:, nc * nx:]), "new row depends on rows beyond the stencil")
    n = nc * nx
    F = np.zeros((n, n))
    F[:nx, :] = A
    F[nx:, :n - nx] = np.eye(n - nx)
    G = np.zeros((n, nx))
    G[:nx] = B
    rho = float(np.max(np.abs(np.linalg.eigvals(F))))
    if rho >= 1.0 + 1e-9 and p["L0"] / float(p["ps"]) >= 1e9 and ctx.is_open(KF_UNSTABLE):
        # open known finding: accepted but unstable recursions for L0 / pixel_scale >= 1e9 (only this slice is excluded: an
        # unstable recursion at a smaller ratio, and every other requirement at any ratio, is still reported)
        ctx.exclude(KF_UNSTABLE)
        return
    ctx.residual("spectral radius of the row recursion", rho, 1.0)
    # eigenvalues of the non-normal companion matrix are computed to ~1e-12; 1 - rho is of the order pixel/L0 >= 1e-6 here
    ctx.require(rho < 1.0 + 1e-9, "the row recursion is not stable: spectral radius %.9f >= 1 (nx=%d, n_columns=%d, L0/pixel=%.3g)" % (rho, nx, nc, p["L0"] / p["ps"]))
    pos = np.stack([np.repeat(np.arange(nc), nx), np.tile(np.arange(nx), nc)], axis=1).astype(float) * p["ps"]
    S = c04.sigma(pos, pos, p["r0"], p["L0"])
    B0 = float(vk.B(0.0, p["r0"], p["L0"]))
    amp = 1.0 + float(np.max(np.sum(np.abs(A), axis=1)))
    unit = 2.3e-16 * float(np.linalg.cond(S)) + 1e-14          # see C04: residual of an explicit double-precision inverse
    res = float(np.max(np.abs(F @ S @ F.T + G @ G.T - S))) / B0
    ctx.residual("fixed-point residual over B(0), per unit eps cond (1+|A|_inf)^2", res / (amp ** 2 * unit), 8.0)
    ctx.require(res <= 8.0 * unit * amp * amp, "the theoretical von Karman covariance is not a fixed point of the row recursion: residual %.3g B(0) (tolerance %.3g)" % (res, 8.0 * unit * amp * amp))
    # the unique stationary covariance (discrete Lyapunov equation) therefore equals the theoretical one
    if rho < 0.9995:
        X = linalg.solve_discrete_lyapunov(F, G @ G.T)
        err = float(np.max(np.abs(X - S))) / B0
        bound = max(res, 1e-12) * n / (1 - rho ** 2) * 4
        ctx.residual("lyapunov solution vs theory / bound", err / bound, 1.0)
        ctx.require(err <= bound, "stationary covariance of the recursion differs from the von Karman covariance by %.3g B(0) (bound %.3g)" % (err, bound))


def long_cases(tier):
    rows = 400 if tier == "quick" else 2000
    return [{"kind": "vk", "nx": 16, "ncol": 2, "ps": 0.1, "r0": 0.15, "L0": 25.0, "seed": s, "rows": rows} for s in (1, 2)] + \
           [{"kind": "vk", "nx": 9, "ncol": 3, "ps": 0.25, "r0": 0.3, "L0": 8.0, "seed": 3, "rows": rows},
            {"kind": "fried", "nx": 12, "factor": 2, "ps": 0.1, "r0": 0.15, "L0": 25.0, "seed": 4, "rows": rows}] + \
           [{"kind": "vk", "nx": 4, "ncol": 2, "ps": 0.1, "r0": 0.15, "L0": 25.0, "seed": 5, "rows": 9000},            # histories longer than any round buffer size
            {"kind": "fried", "nx": 3, "factor": 1, "ps": 0.1, "r0": 0.15, "L0": 25.0, "seed": 6, "rows": 9000}]


def long_body(ctx, p):
    g = np.random.default_rng(p["seed"])
    scr = c04.make(p["kind"], p, g)
    ctx.case(p, nontrivial=True, classes=[p["kind"]])
    sig = math.sqrt(float(vk.B(0.0, p["r0"], p["L0"])))
    prev = np.array(scr.scrn, copy=True)
    mx = 0.0
    for i in range(p["rows"]):
        scr.add_row()
        cur = scr.scrn
        ctx.require(cur.shape == (p["nx"], p["nx"]) and bool(np.all(np.isfinite(cur))), "row %d: shape/finite" % i)
        ctx.equal(cur[1:], prev[:-1], "row %d: old rows not shifted by exactly one" % i)
        prev = np.array(cur, copy=True)
        mx = max(mx, float(np.max(np.abs(cur))))
    if p["kind"] == "vk":
        ctx.residual("max |phase| / sigma over a long run", mx / sig, 12.0)
        ctx.require(mx <= 12 * sig, "von Karman screen left the 12-sigma band after %d rows: %.3g sigma" % (p["rows"], mx / sig))


def self_test():
    vk.self_test()


LAWS = [
    machine_law("history", make_machine, replay_history, {"quick": 60, "thorough": 400}, {"quick": 30, "thorough": 60}, shards={"quick": 6, "thorough": 16}),
    given_law("vk_stability", stab_cases(), stab_body, {"quick": 25, "thorough": 200}, shards={"quick": 4, "thorough": 16}),
    plain_law("long_runs", long_cases, long_body, shards={"quick": 4, "thorough": 4}),
]
