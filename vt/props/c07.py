"""C07 - FFT phase screens have exactly the discretised von Karman statistics."""
import math
import warnings

import numpy as np
from hypothesis import strategies as st

from ..core import given_law, plain_law
from .. import gen
from ..oracles import vk
from ..scripted_rng import Scripted

RULE = ("even N in 2..24 (thorough to 32), delta log-uniform [0.01,1], r0 [0.05,1], L0 = [0.2,20] x screen width, l0 in "
        "[1e-4,0.1]. The screen generator is probed with unit draws through an injected scripted Generator, which yields "
        "the matrix L with screen = L g; the exact ensemble covariance L L^T is compared with an independent spectral sum "
        "of the modified von Karman spectrum over k in {-N/2..N/2-1}^2 minus 0; zero mean, constant variance, "
        "block-circulant covariance, zero spatial mean per realisation, r0^(-5/6) amplitude scaling. Sub-harmonic variant: "
        "2N^2+54 probes, D_sh - D_hi == independent three-level sub-harmonic sum >= 0. Trend checks: sub-harmonics closer to "
        "the analytic structure function at separations >= N delta/4; deficit shrinks along the ladder N -> 2N -> 4N. "
        "Non-trivial = N >= 4. Distinct = canonical JSON."
        " Also: the FFT= argument with a plan object that owns its output buffer (screens equal the default path's and survive reuse of the plan)."
        " Also: L0 from 1e-3 to 1e4 screen widths, r0 1e-3 .. 100, whole-number parameters as Python / NumPy integers."
        " Law scalar_types: the same parameter values as NumPy integers / float32 / Python ints give bit-identical screens; grid size as typed NumPy integers in the probe laws."
        " Law threads (Ctx.thread_agreement).")
ASSUMPTIONS = ["the ensemble is over the draws of the injected Generator (independent hi/lo draws), as the statement says; the int-seed path (two identically seeded generators) is measured and reported separately",
               "spectral identities to 1e-10 relative (double precision FFT)"]


def PSm():
    from aotools.turbulence import phasescreen
    return phasescreen


def probe(N, delta, r0, L0, l0, sh=False, N_as=None):
    ps = PSm()
    f_ = ps.ft_sh_phase_screen if sh else ps.ft_phase_screen
    Ncall = getattr(np, N_as)(N) if N_as else N        # the size as the caller holds it (an element of a uint16 header array ...)
    f = lambda r0_, N_, *a, **k: f_(r0_, Ncall, *a, **k)
    nd = 2 * N * N + (54 if sh else 0)
    g = Scripted()
    zero = f(r0, N, delta, L0, l0, seed=g)
    req = list(g.requests)
    L = np.zeros((N * N, nd))
    for k in range(nd):
        g.clear()
        e = np.zeros(nd)
        e[k] = 1.0
        g.feed(e)
        L[:, k] = f(r0, N, delta, L0, l0, seed=g).ravel()
    return L, zero, req


def spectrum(fx, fy, r0, L0, l0):
    f2 = fx * fx + fy * fy
    fm = 5.92 / l0 / (2 * math.pi) if l0 else math.inf          # no inner scale: exp(-(f/fm)^2) = 1
    with np.errstate(all="ignore"):
        return 0.023 * r0 ** (-5.0 / 3) * np.exp(-f2 / fm ** 2) * (f2 + (0.0 if math.isinf(L0) else L0 ** -2.0)) ** (-11.0 / 6)


def cov_oracle(N, delta, r0, L0, l0):
    """C[p, q] = sum_k Phi(f_k) df^2 cos(2 pi k.(p-q)/N), k in {-N/2..N/2-1}^2 \\ {0}."""
    df = 1.0 / (N * delta)
    k = np.arange(-N // 2, N // 2)
    KX, KY = np.meshgrid(k, k)
    P = spectrum(KX * df, KY * df, r0, L0, l0) * df * df
    P[(KX == 0) & (KY == 0)] = 0.0
    # correlation as a function of the lag (dy, dx) via a direct cosine sum
    lag = np.arange(N)
    cy = np.cos(2 * np.pi * np.outer(lag, k) / N)        # [lag, k]
    sy = np.sin(2 * np.pi * np.outer(lag, k) / N)
    # sum_k P[ky,kx] cos(a_y + a_x) = cos cos - sin sin
    R = cy @ P @ cy.T - sy @ P @ sy.T                      # R[dy, dx]
    idx = np.arange(N)
    dy = (idx[:, None] - idx[None, :]) % N
    C = R[dy[:, None, :, None], dy[None, :, None, :]]     # C[py, px, qy, qx] = R[(py-qy)%N, (px-qx)%N]
    return C.reshape(N * N, N * N), R


def sh_structure_oracle(N, delta, r0, L0, l0):
    """D_lo(p, q) of the three-level sub-harmonic sum (independent of the mean removal)."""
    D = N * delta
    c = np.arange(-N / 2, N / 2) * delta
    X, Y = np.meshgrid(c, c)
    x, y = X.ravel(), Y.ravel()
    out = np.zeros((N * N, N * N))
    for p in range(1, 4):
        df = 1.0 / (3 ** p * D)
        for i in (-1, 0, 1):
            for j in (-1, 0, 1):
                if i == 0 and j == 0:
                    continue
                fx, fy = j * df, i * df
                w = float(spectrum(fx, fy, r0, L0, l0)) * df * df
                ph = 2 * np.pi * (fx * x + fy * y)
                out += w * 2 * (1 - np.cos(ph[:, None] - ph[None, :]))
    return out


def structure(C):
    d = np.diag(C)
    return d[:, None] + d[None, :] - 2 * C


@st.composite
def cfgs(draw, nmax=24):
    N = 2 * draw(st.integers(1, nmax // 2))
    delta = draw(gen.logfloat(0.01, 1.0))
    L0 = N * delta * draw(st.one_of(gen.logfloat(0.2, 20.0), gen.logfloat(1e-3, 1e4)))
    if draw(st.integers(0, 5)) == 0:
        L0 = draw(st.sampled_from([float("inf"), 1e6, 1e9]))          # Kolmogorov-like outer scales are valid inputs
    r0 = draw(st.one_of(gen.logfloat(0.05, 1.0), gen.logfloat(1e-3, 100.0)))
    if draw(st.integers(0, 7)) == 0:
        # whole-number parameters given as Python / NumPy integers (a 1 m pixel, r0 = 1, L0 = 25) are the same numbers
        it = draw(st.sampled_from([int, np.int64, np.int32]))
        delta, r0, L0 = it(draw(st.integers(1, 3))), it(draw(st.integers(1, 4))), it(draw(st.sampled_from([5, 25, 100])))
    N_as = draw(st.sampled_from([None, None, None, "int64", "int32", "uint8", "uint16", "uint32", "int8", "int16"]))
    return {"N": N, "delta": delta, "r0": r0, "L0": L0, "N_as": N_as,
            "l0": draw(st.one_of(gen.logfloat(1e-4, 0.1), st.just(2 * delta), st.just(delta), st.sampled_from([0, 0.0]))), "k": draw(gen.logfloat(0.3, 3.0)), "seed": draw(st.integers(0, 2**31))}


def hi_body(ctx, p):
    N, delta, r0, L0, l0 = p["N"], p["delta"], p["r0"], p["L0"], p["l0"]
    ctx.case(p, nontrivial=N >= 4, classes=["N%d" % N, "L0_inf" if math.isinf(L0) else ("L0_huge" if L0 >= 1e6 else "L0_finite")])
    with warnings.catch_warnings():
        warnings.simplefilter("ignore")
        with np.errstate(all="ignore"):
            L, zero, req = probe(N, delta, r0, L0, l0, N_as=p.get("N_as"))
    ctx.require(zero.shape == (N, N), "screen shape %s" % (zero.shape,))
    ctx.require(not np.any(zero), "screen with all-zero draws is not zero (non-zero mean)")
    ctx.require([tuple(r) if r is not None else r for r in req] == [(N, N), (N, N)], "ft_phase_screen requested draws %r, expected two (N,N) blocks" % (req,))
    C = L @ L.T
    want, R = cov_oracle(N, delta, r0, L0, l0)
    scale = float(R[0, 0]) or 1.0
    ctx.close(C, want, 1e-10, "exact ensemble covariance L L^T vs spectral sum of the modified von Karman spectrum", scale=scale, name="covariance vs spectral sum")
    d = np.diag(C)
    ctx.close(d, np.full(N * N, d[0]), 1e-10, "variance independent of position", scale=scale, name="constant variance")
    ctx.close(L.sum(axis=0), np.zeros(L.shape[1]), 1e-10, "each realisation has zero spatial mean (zero frequency removed)", scale=float(np.max(np.abs(L))) * N * N or 1.0, name="zero spatial mean")
    # linearity + r0 scaling on a drawn realisation
    g = gen.np_rng(p["seed"]).normal(size=2 * N * N)
    def run(r0_):
        s = Scripted()
        s.feed(g)
        return PSm().ft_phase_screen(r0_, N, delta, L0, l0, seed=s)
    a = run(r0)
    ctx.close(a.ravel(), L @ g, 1e-10, "screen is the linear map of its draws", scale=float(np.max(np.abs(a))) or 1.0, name="linearity")
    k = p["k"]
    ctx.close(run(r0 * k), a * k ** (-5.0 / 6), 1e-12, "amplitude scales as r0^(-5/6) for fixed draws", scale=float(np.max(np.abs(a))) * k ** (-5.0 / 6) or 1.0, name="r0 scaling")
    # history with a near-coincidence of arguments: a call whose geometry differs by a few parts in 1e6 from the
    # immediately preceding call must not inherit anything from it
    eps_ = 3e-6
    near = dict(delta=delta * (1 + eps_), L0=L0 * (1 - eps_), l0=l0 * (1 + eps_))
    def run_near():
        s = Scripted()
        s.feed(g)
        return PSm().ft_phase_screen(r0, N, near["delta"], near["L0"], near["l0"], seed=s)
    run(r0)                                   # previous call: the case's own geometry
    after_neighbour = run_near()
    PSm().ft_phase_screen(r0 * 2, N + 2, delta * 3, 7.0, 0.05, seed=Scripted())      # an unrelated call
    after_unrelated = run_near()
    ctx.equal(after_neighbour, after_unrelated, "a screen depends on the (nearly equal) geometry of the immediately preceding call")
    # seeded int and real Generator give that same linear map of their own draws
    g2 = np.random.default_rng(p["seed"])
    draws = np.concatenate([g2.normal(size=(N, N)).ravel(), g2.normal(size=(N, N)).ravel()])
    b = PSm().ft_phase_screen(r0, N, delta, L0, l0, seed=p["seed"])
    ctx.close(b.ravel(), L @ draws, 1e-10, "int-seeded screen == L applied to the seeded generator's draws", scale=float(np.max(np.abs(b))) or 1.0, name="seeded path")


def rows_cases(tier):
    """Screens of the sizes simulations use (beyond 256 samples, not only powers of two)."""
    sizes = [258, 320, 384, 500, 600] if tier == "quick" else [258, 260, 288, 320, 384, 400, 500, 512, 600, 640, 768, 1000]
    return [{"N": N, "delta": 0.05, "r0": 0.15, "L0": L0, "l0": 0.01, "seed": 17 * N + k} for N in sizes for k, L0 in enumerate([20.0, 1e6][:1 if tier == "quick" else 2])]


def rows_body(ctx, p):
    """One unit draw in EVERY frequency row (random column), real part and imaginary part in two calls: the two screens are the
    real and (minus) the imaginary part of a sum of N plane waves whose amplitudes are sqrt(Phi(f)) df of the frequencies hit -
    read back with a 2-D FFT and compared as a multiset (no shift / sign convention assumed; the spectrum is isotropic)."""
    N, delta, r0, L0, l0 = p["N"], p["delta"], p["r0"], p["L0"], p["l0"]
    ctx.case(p, nontrivial=True, classes=["N%d" % N, "power_of_two" if N & (N - 1) == 0 else "not_power_of_two"])
    rng = gen.np_rng(p["seed"])
    cols = rng.integers(0, N, size=N)
    e = np.zeros(2 * N * N)
    e[np.arange(N) * N + cols] = 1.0
    def run(vec):
        s_ = Scripted()
        s_.feed(vec)
        with warnings.catch_warnings():
            warnings.simplefilter("ignore")
            with np.errstate(all="ignore"):
                return PSm().ft_phase_screen(r0, N, delta, L0, l0, seed=s_)
    pr = run(e)
    pi_ = run(np.roll(e, N * N))
    ctx.require(pr.shape == (N, N), "screen shape %s" % (pr.shape,))
    S = np.abs(np.fft.fft2(pr - 1j * pi_)) / (N * N)
    df = 1.0 / (N * delta)
    ky, kx = np.arange(N) - N // 2, cols - N // 2
    A = np.sqrt(spectrum(kx * df, ky * df, r0, L0, l0)) * df
    A[(kx == 0) & (ky == 0)] = 0.0
    top = np.sort(S.ravel())[::-1]
    want = np.sort(A)[::-1]
    ctx.close(top[:N], want, 1e-9, "N=%d: amplitudes of the plane waves excited by one unit draw in every frequency row == sqrt(Phi(f)) df (as a multiset)" % N, scale=float(want[0]), name="row-sampled spectrum amplitudes")
    ctx.require(float(top[N]) <= 1e-9 * float(want[0]), "N=%d: one unit draw per frequency row excites more than N plane waves (next amplitude %.3g)" % (N, float(top[N])))


def sh_body(ctx, p):
    N, delta, r0, L0, l0 = p["N"], p["delta"], p["r0"], p["L0"], p["l0"]
    ctx.case(p, nontrivial=N >= 4, classes=["N%d" % N])
    with warnings.catch_warnings():
        warnings.simplefilter("ignore")
        Lh, _, _ = probe(N, delta, r0, L0, l0, N_as=p.get("N_as"))
        Ls, zero, req = probe(N, delta, r0, L0, l0, sh=True, N_as=p.get("N_as"))
    ctx.require(not np.any(zero), "sub-harmonic screen with all-zero draws is not zero")
    ctx.require(sum(int(np.prod(r)) for r in req) == 2 * N * N + 54, "ft_sh_phase_screen consumed %d draws, expected 2N^2+54" % sum(int(np.prod(r)) for r in req))
    ctx.close(Ls[:, :2 * N * N], Lh, 1e-12, "high-frequency part of the sub-harmonic screen == plain screen", scale=float(np.max(np.abs(Lh))) or 1.0, name="hi part")
    Dh = structure(Lh @ Lh.T)
    Ds = structure(Ls @ Ls.T)
    mx = float(np.max(Ds)) or 1.0
    diff = Ds - Dh
    ctx.residual("most negative D_sh - D_hi over max D", max(0.0, -float(np.min(diff))) / mx, 1e-12)
    ctx.require(float(np.min(diff)) >= -1e-12 * mx, "a structure-function value DEcreases when sub-harmonics are added: min(D_sh - D_hi) = %.3g (max D %.3g)" % (float(np.min(diff)), mx))
    want = sh_structure_oracle(N, delta, r0, L0, l0)
    ctx.close(diff, want, 1e-10, "D_sh - D_hi vs independent three-level sub-harmonic sum", scale=float(np.max(want)) or mx, name="subharmonic structure function")
    # int-seed path (the documented way to seed): which linear map of the seeded stream is the screen?
    n = max(2 * N * N, 54)
    g2 = np.random.default_rng(p["seed"])
    stream = g2.normal(size=2 * N * N + 54)
    b = PSm().ft_sh_phase_screen(r0, N, delta, L0, l0, seed=p["seed"])
    tol_b = 1e-9 * (float(np.max(np.abs(b))) or 1.0)
    if np.allclose(b.ravel(), Ls @ stream, rtol=0, atol=tol_b):
        ctx.classes["int_seed_draws_independent"] += 1          # same ensemble as the injected Generator: nothing more to check
    else:
        # two identically seeded generators: the 54 sub-harmonic draws repeat the first draws of the stream
        S = np.zeros((2 * N * N + 54, n))
        S[np.arange(2 * N * N), np.arange(2 * N * N)] = 1.0
        S[2 * N * N + np.arange(54), np.arange(54)] = 1.0
        Lint = Ls @ S
        if np.allclose(b.ravel(), Lint @ stream[:n] if n <= len(stream) else 0, rtol=0, atol=tol_b):
            ctx.classes["int_seed_stream_reused"] += 1
            Dint = structure(Lint @ Lint.T)
            worst = float(np.min(Dint - Dh)) / mx
            ctx.residual("int seed: most negative D_sh - D_hi over max D", max(0.0, -worst), 1e-9)
            ctx.require(worst >= -1e-9, "with an integer seed the sub-harmonic draws repeat the high-frequency draws, and over the ensemble of seeds a structure-function value DEcreases when sub-harmonics are added: min(D_sh - D_hi) = %.3g of max D (N=%d)" % (worst, N))
        else:
            ctx.classes["int_seed_model_not_applicable"] += 1


# ------------------------------------------------------------------ trend checks

def trend_cases(tier):
    out = []
    for (delta, r0, L0f) in ((0.1, 0.15, 4.0), (0.05, 0.3, 10.0)):
        out.append({"delta": delta, "r0": r0, "L0f": L0f, "ladder": [8, 16, 32] if tier == "quick" else [8, 16, 32, 48]})
    return out


def axis_D(L, N):
    C = L @ L.T
    D = structure(C).reshape(N, N, N, N)
    return D[0, 0, 0, :]            # separations along a row from pixel (0,0)


def trend_body(ctx, p):
    delta, r0 = p["delta"], p["r0"]
    N0 = p["ladder"][0]
    L0 = p["L0f"] * N0 * delta
    l0 = delta / 100.0
    ctx.case(p, nontrivial=True)
    defs = []
    for N in p["ladder"]:
        with warnings.catch_warnings():
            warnings.simplefilter("ignore")
            Lh, _, _ = probe(N, delta, r0, L0, l0)
        Dh = axis_D(Lh, N)
        seps = np.arange(1, N0 // 4 + 1)
        ana = np.asarray(vk.D(seps * delta, r0, L0)) * (0.023 / vk.C_PSD)
        deficit = float(np.max(np.abs(Dh[seps] - ana) / ana))
        defs.append(deficit)
        if N == p["ladder"][0] or N == 16:
            with warnings.catch_warnings():
                warnings.simplefilter("ignore")
                Ls, _, _ = probe(N, delta, r0, L0, l0, sh=True)
            Dsub = axis_D(Ls, N)
            far = np.arange(N // 4, N // 2 + 1)
            anaf = np.asarray(vk.D(far * delta, r0, L0)) * (0.023 / vk.C_PSD)
            better = np.abs(Dsub[far] - anaf) < np.abs(Dh[far] - anaf)
            ctx.require(bool(np.all(better)), "sub-harmonics are not closer to the analytic structure function at separations >= N delta/4 (N=%d): |D_sh-D|=%r |D_hi-D|=%r" % (
                N, np.abs(Dsub[far] - anaf).tolist(), np.abs(Dh[far] - anaf).tolist()))
    ctx.note("deficit_ladder_%g" % delta, defs)
    for a, b in zip(defs, defs[1:]):
        ctx.require(b <= a * (1 + 1e-6), "structure-function deficit grows when the grid is enlarged: %r" % defs)
    ctx.require(defs[-1] < 0.5 * defs[0], "structure function does not approach the analytic von Karman one along the ladder: %r" % defs)


def self_test():
    vk.self_test()
    # oracle sanity: covariance at zero lag equals the summed spectrum
    C, R = cov_oracle(4, 0.1, 0.2, 5.0, 0.01)
    assert abs(C[0, 0] - R[0, 0]) < 1e-15 and np.allclose(C, C.T)


# ------------------------------------------------------------------ the optional FFT= plan object

class Plan:
    """What an accelerated FFT object (pyfftw style) is: a callable that owns its output buffer and returns that same
    array from every call.  Computes the inverse transform the default path computes."""

    def __init__(self):
        self.out = None
        self.calls = 0

    def __call__(self, x):
        x = np.asarray(x)
        if self.out is None or self.out.shape != x.shape:
            self.out = np.empty(x.shape, dtype=complex)
        self.out[...] = np.fft.ifft2(x)
        self.calls += 1
        return self.out


@st.composite
def plan_cases(draw):
    N = 2 * draw(st.integers(1, 12))
    delta = draw(gen.logfloat(0.01, 1.0))
    return {"N": N, "delta": delta, "r0": draw(gen.logfloat(0.05, 1.0)), "L0": N * delta * draw(gen.logfloat(0.2, 50.0)), "l0": delta * draw(gen.logfloat(0.01, 1.0)),
            "sh": draw(st.booleans()), "seed": draw(st.integers(0, 2**31)), "k": draw(gen.logfloat(0.3, 3.0))}


def plan_body(ctx, p):
    """A screen made through a user-supplied FFT object is the screen the default path makes from the same draws, and it
    stays that screen when the same FFT object is used again (two layers of one atmosphere)."""
    ps = PSm()
    f = ps.ft_sh_phase_screen if p["sh"] else ps.ft_phase_screen
    N, delta, r0, L0, l0, seed = p["N"], p["delta"], p["r0"], p["L0"], p["l0"], p["seed"]
    ctx.case(p, nontrivial=True, classes=["sub_harmonic" if p["sh"] else "plain"])
    plan = Plan()
    with warnings.catch_warnings():
        warnings.simplefilter("ignore")
        ref = f(r0, N, delta, L0, l0, seed=seed)
        a = f(r0, N, delta, L0, l0, FFT=plan, seed=seed)
        a0 = np.array(a, copy=True)
        b = f(r0 * p["k"], N, delta, L0, l0, FFT=plan, seed=seed)
        b0 = np.array(b, copy=True)
        c = f(r0, N, delta, L0, l0, FFT=plan, seed=seed + 1)
    ctx.require(plan.calls >= 3, "the FFT object handed over was not used")
    sc = float(np.max(np.abs(ref))) or 1.0
    ctx.close(a0, ref, 1e-10, "screen made through a user-supplied FFT object == screen made by the default path from the same seed", scale=sc, name="FFT object vs default")
    ctx.equal(a, a0, "a screen made through a user-supplied FFT object was rewritten when the same FFT object made the next screen")
    ctx.equal(b, b0, "a screen made through a user-supplied FFT object was rewritten when the same FFT object made the next screen")
    ctx.close(b0, a0 * p["k"] ** (-5.0 / 6), 1e-10, "amplitude scales as r0^(-5/6) for fixed draws (FFT object)", scale=sc * p["k"] ** (-5.0 / 6), name="r0 scaling through FFT object")
    ctx.require(not np.array_equal(c, a0), "different seeds give the same screen through a user-supplied FFT object")


# ------------------------------------------------------------------ the same numbers in other scalar types

def forms_cases(tier):
    base = {"r0": 0.25, "N": 16, "delta": 0.5, "L0": 32.0, "l0": 0.0625}
    ibase = {"r0": 2, "N": 24, "delta": 3, "L0": 64, "l0": 1}            # whole numbers: N * delta = 72, 27 * 72 wraps in 8 and 16 bit
    out = []
    for sh in (False, True):
        for b, types in ((base, {"r0": ["float32", "float64"], "delta": ["float32", "float64"], "L0": ["float32", "int"], "l0": ["float32"], "N": ["int8", "uint8", "uint16", "int16", "uint32", "int64", "uint64"]}),
                         (ibase, {"r0": ["int", "int8", "uint8", "float32"], "delta": ["int", "int8", "uint8", "int16"], "L0": ["int", "int8", "uint8"], "l0": ["int", "int8"], "N": ["int8", "uint8", "int16", "uint16"]})):
            for field, tl in types.items():
                for t in tl:
                    out.append({"sh": sh, "base": b, "field": field, "type": t})
            # two narrow types at once (N and delta): their product is formed in the narrow type
            out.append({"sh": sh, "base": b, "field": "N,delta", "type": "int8"})
    return out


def forms_body(ctx, case):
    """The same parameter values handed over as other scalar types (a NumPy integer read from a header, a float32 from a
    configuration table, a Python int for a whole number) give the same screen, bit for bit, for the same seed."""
    ps = PSm()
    f = ps.ft_sh_phase_screen if case["sh"] else ps.ft_phase_screen
    b = dict(case["base"])
    ctx.case(case, nontrivial=True, classes=["sub_harmonic" if case["sh"] else "plain", case["field"] + "_as_" + case["type"]])
    conv = (lambda v: int(v)) if case["type"] == "int" else getattr(np, case["type"])
    typed = dict(b)
    for fld in case["field"].split(","):
        if float(conv(b[fld])) != float(b[fld]):
            return                                      # not representable in that type: nothing to compare
        typed[fld] = conv(b[fld])
    with warnings.catch_warnings():
        warnings.simplefilter("ignore")
        with np.errstate(all="ignore"):
            ref = f(float(b["r0"]), int(b["N"]), float(b["delta"]), float(b["L0"]), float(b["l0"]), seed=11)
            got = f(typed["r0"], typed["N"], typed["delta"], typed["L0"], typed["l0"], seed=11)
    ctx.equal(np.asarray(got), ref, "%s(r0=%r, N=%r, delta=%r, L0=%r, l0=%r) with %s given as %s differs from the call with Python numbers (same seed)" % (
        "ft_sh_phase_screen" if case["sh"] else "ft_phase_screen", b["r0"], b["N"], b["delta"], b["L0"], b["l0"], case["field"], case["type"]))


# ------------------------------------------------------------------ concurrent calls from threads of one process

def thread_cases(tier):
    return [{"N": 128, "sh": False}, {"N": 128, "sh": True}, {"N": 256, "sh": False}]


def thread_body(ctx, case):
    """Screens for several layers generated at the same time by threads of one process (a thread pool over layers) are the
    screens generated one after the other: each is a function of its own seeded draws only."""
    ps = PSm()
    f = ps.ft_sh_phase_screen if case["sh"] else ps.ft_phase_screen
    N = case["N"]
    ctx.case(case, nontrivial=True, classes=["sub_harmonic" if case["sh"] else "plain", "N%d" % N])

    def mk(i):
        return lambda: f(0.1 + 0.02 * i, N, 0.05, 20.0 + i, 0.01, seed=100 + i)
    with warnings.catch_warnings():                      # (set once, outside the threads: the filter list is process-wide)
        warnings.simplefilter("ignore")
        ctx.thread_agreement([mk(i) for i in range(8)], "ft_sh_phase_screen" if case["sh"] else "ft_phase_screen")


LAWS = [
    plain_law("threads", thread_cases, thread_body, shards={"quick": 3, "thorough": 3}),
    plain_law("scalar_types", forms_cases, forms_body, shards={"quick": 2, "thorough": 2}),
    given_law("fft_object", plan_cases(), plan_body, {"quick": 60, "thorough": 600}, shards={"quick": 2, "thorough": 8}),
    given_law("hi_covariance_xl", cfgs(44), hi_body, {"quick": 0, "thorough": 2}, shards={"quick": 1, "thorough": 16}),
    given_law("hi_covariance", cfgs(24), hi_body, {"quick": 12, "thorough": 100}, shards={"quick": 6, "thorough": 16}),
    given_law("sub_harmonics", cfgs(16), sh_body, {"quick": 8, "thorough": 80}, shards={"quick": 6, "thorough": 16}),
    given_law("hi_covariance_large", cfgs(32), hi_body, {"quick": 2, "thorough": 20}, shards={"quick": 3, "thorough": 16}),
    plain_law("row_sampled_spectrum_realistic_size", rows_cases, rows_body, shards={"quick": 5, "thorough": 12}),
    plain_law("trends", trend_cases, trend_body, shards={"quick": 2, "thorough": 2}),
]
