"""C13 - Karhunen-Loeve modes are orthonormal and diagonalise Kolmogorov covariance."""
import contextlib
import io
import math
import warnings

import numpy as np
from hypothesis import strategies as st

from ..core import Failure, Law, Violation, given_law, plain_law
from .. import gen

RULE = ("ri in [0.02,0.95] and the extremes 0.001 .. 0.995, nr in 5..18, azimuthal sampling npp in {5 nr (the kernel's own), int(2 pi nr) (make_kl's), 4 nr, "
        "6 nr}, nfunc in 2..min(40, nr*npp/15) (the code's own resolution rule), dim in 8..64 odd and even, mask on/off. "
        "Polar identities on the native grid: Gram matrix = I, zero mean, brute-force double pupil sum -1/2 <<K_i D K_j>> "
        "over all (nr*npp)^2 point pairs with an independent D = 6.8839 rho^(5/3) is diagonal with the returned variances; "
        "variances positive, non-increasing, tip/tilt first and equal. Cartesian rendering: pupil == independent annulus "
        "indicator, masked modes exactly 0 outside, each pixel inside within [min,max] of the polar function over the 4x4 "
        "block of polar cells around its independently computed (r^2, theta) indices. Non-trivial = nfunc >= 6 and ri "
        "outside [0.19,0.21]. Distinct = canonical JSON."
        " Also: the set_pctr(basis, ncp, ncmar) + pol2car route with margins None, 0..5; mask as bool / numpy.bool_ / int."
        " Law degenerate_variances: the ri at which two neighbouring variances cross is found by bisection and the rendering judged there.")
ASSUMPTIONS = ["pupil average = uniform mean over the equal-area polar grid (radp, 2 pi k / npp)", "separations in pupil diameters: rho = |x - x'| / 2 for radii normalised to 1",
               "off-diagonal tolerance 1e-9 of the largest variance when npp = 5 nr, 1e-4 otherwise (azimuthal aliasing of the r^(5/3) kernel)",
               "rendering judged by a validity predicate (order-1 interpolation is a convex combination of neighbouring polar cells)"]


def KL():
    from aotools.functions import karhunenLoeve
    return karhunenLoeve


def quiet(f, *a, **k):
    buf = io.StringIO()
    with contextlib.redirect_stdout(buf), warnings.catch_warnings():
        warnings.simplefilter("ignore")
        return f(*a, **k)


@st.composite
def polar_cases(draw, nrmax=18):
    nr = draw(st.integers(5, nrmax))
    ri = draw(st.one_of(st.floats(0.02, 0.95), st.sampled_from([0.2, 0.25, 0.5, 0.7520014259644755, 0.1, 0.9]), st.sampled_from([0.001, 0.005, 0.01, 0.97, 0.99, 0.995])))
    mode = draw(st.sampled_from(["native", "native", "makekl", "x4", "x6"]))
    npp = {"native": 5 * nr, "makekl": int(2 * math.pi * nr), "x4": 4 * nr, "x6": 6 * nr}[mode]
    nmax = max(2, min(40, (nr * npp) // 15))
    return {"ri": ri, "nr": nr, "npp": npp, "mode": mode, "nfunc": draw(st.integers(2, nmax)),
            "stf": draw(st.sampled_from(["kolstf", "kolmogorov"])), "outerscale": draw(st.sampled_from([None, None, 5.0, 1000.0]))}


def quadratic_form_fft(K, r, npp):
    """-1/2 <<K_i D K_j>> over the polar grid with the independent D = 6.8839 (|x - x'| / 2)^(5/3), summed over ALL point pairs
    exactly as the brute-force double sum, but ring pair by ring pair as a circular correlation in theta (D depends on the
    two radii and the angle difference only) - affordable at the radial resolutions make_kl's documentation recommends."""
    nfunc, nr, _ = K.shape
    m = 2 * np.pi * np.arange(npp) / npp
    rho = 0.5 * np.sqrt(np.maximum(r[:, None, None] ** 2 + r[None, :, None] ** 2 - 2 * r[:, None, None] * r[None, :, None] * np.cos(m)[None, None, :], 0.0))
    Dh = np.fft.fft(6.8839 * rho ** (5.0 / 3), axis=-1)
    F = np.fft.fft(K, axis=-1)
    T = np.einsum("abk,jbk->jak", Dh, F)
    n = nr * npp
    return -0.5 * np.einsum("iak,jak->ij", np.conj(F), T).real / npp / (n * n)


def production_cases(tier):
    return [{"ri": ri, "nr": nr, "nfunc": 10} for nr, ri in ([(8, 0.2), (60, 0.2), (64, 0.25)] if tier == "quick" else [(8, 0.2), (60, 0.2), (64, 0.25), (72, 0.1), (80, 0.2), (61, 0.3)])]


def production_body(ctx, p):
    """The radial resolutions make_kl's documentation recommends for 1000 - 3000 modes (nr 60 .. 80), where an implementation
    may evaluate the kernel differently (blocking) from the small grids the other laws draw."""
    kl = KL()
    ri, nr, nfunc = p["ri"], p["nr"], p["nfunc"]
    npp = 5 * nr
    ctx.case(p, nontrivial=nr >= 60, classes=["nr%d" % nr])
    bas = quiet(kl.gkl_basis, ri, nr, npp, nfunc)
    K = np.stack([quiet(kl.gkl_sfi, bas, i) for i in range(nfunc)])
    ev = np.asarray(bas["evals"], dtype=float)
    r = np.asarray(bas["radp"], dtype=float)
    ctx.close(r ** 2, ri ** 2 + (1 - ri ** 2) / nr * (np.arange(nr) + 1.0 / 16), 1e-12, "radial grid: equal-area rings between ri and 1", scale=1.0, name="radial grid")
    Kf = K.reshape(nfunc, -1)
    n = Kf.shape[1]
    ctx.close(Kf @ Kf.T / n, np.eye(nfunc), 1e-10, "Gram matrix over the pupil == identity (nr=%d)" % nr, scale=1.0, name="gram")
    M = quadratic_form_fft(K, r, npp)
    if nr <= 10:
        th = 2 * np.pi * np.arange(npp) / npp
        X = (r[:, None] * np.cos(th)[None, :]).ravel()
        Y = (r[:, None] * np.sin(th)[None, :]).ravel()
        D = 6.8839 * (0.5 * np.sqrt((X[:, None] - X[None, :]) ** 2 + (Y[:, None] - Y[None, :]) ** 2)) ** (5.0 / 3)
        ctx.close(M, -0.5 * (Kf @ D @ Kf.T) / (n * n), 1e-11, "oracle self-test: ring-pair circular correlation == brute-force double sum", scale=float(np.max(np.abs(ev))), name="oracle self-test")
    top = float(np.max(np.abs(ev)))
    off = M - np.diag(np.diag(M))
    ctx.residual("production resolution: off-diagonal covariance / largest variance", float(np.max(np.abs(off))) / top, 1e-8)
    ctx.require(float(np.max(np.abs(off))) <= 1e-8 * top, "KL modes do not diagonalise the Kolmogorov covariance at nr=%d: largest off-diagonal element %.3g of the largest variance" % (nr, float(np.max(np.abs(off))) / top))
    ctx.close(np.diag(M), ev, 1e-8, "diagonal of -1/2 <<K D K>> == returned variances (nr=%d)" % nr, scale=top, name="variances at production resolution")


def polar_body(ctx, p):
    kl = KL()
    ri, nr, npp, nfunc = p["ri"], p["nr"], p["npp"], p["nfunc"]
    ctx.case(p, nontrivial=nfunc >= 6 and not (0.19 <= ri <= 0.21), classes=["npp_" + p["mode"], "nfunc_ge_6" if nfunc >= 6 else "nfunc_lt_6"])
    kw = {}
    if p.get("stf"):
        kw["stf"] = p["stf"]
    if p.get("outerscale") is not None:
        kw["outerscale"] = p["outerscale"]            # has no meaning for Kolmogorov statistics: must change nothing
        ctx.classes["outerscale_passed_with_kolmogorov"] += 1
    bas = quiet(kl.gkl_basis, ri, nr, npp, nfunc, **kw)
    K = np.stack([quiet(kl.gkl_sfi, bas, i) for i in range(nfunc)])           # (nfunc, nr, npp)
    ctx.require(K.shape == (nfunc, nr, npp) and bool(np.all(np.isfinite(K))), "polar KL functions: shape %s / non-finite" % (K.shape,))
    ev = np.asarray(bas["evals"], dtype=float)
    ctx.require(ev.shape == (nfunc,) and bool(np.all(np.isfinite(ev))), "variances shape/finite")
    Kf = K.reshape(nfunc, -1)
    n = Kf.shape[1]
    G = Kf @ Kf.T / n
    ctx.close(G, np.eye(nfunc), 1e-10, "Gram matrix over the pupil == identity (orthonormal)", scale=1.0, name="gram")
    ctx.close(Kf.mean(axis=1), np.zeros(nfunc), 1e-10, "zero mean over the pupil (piston free)", scale=1.0, name="zero mean")
    # brute-force double sum with an independent structure function
    r = np.asarray(bas["radp"], dtype=float)
    ctx.close(r ** 2, ri ** 2 + (1 - ri ** 2) / nr * (np.arange(nr) + 1.0 / 16), 1e-12, "radial grid: equal-area rings between ri and 1", scale=1.0, name="radial grid")
    th = 2 * np.pi * np.arange(npp) / npp
    X = (r[:, None] * np.cos(th)[None, :]).ravel()
    Y = (r[:, None] * np.sin(th)[None, :]).ravel()
    rho = 0.5 * np.sqrt((X[:, None] - X[None, :]) ** 2 + (Y[:, None] - Y[None, :]) ** 2)
    D = 6.8839 * rho ** (5.0 / 3)
    M = -0.5 * (Kf @ D @ Kf.T) / (n * n)
    top = float(np.max(np.abs(ev)))
    off = M - np.diag(np.diag(M))
    tol_off = 1e-9 if p["mode"] == "native" else 1e-4
    ctx.residual("off-diagonal covariance / largest variance (%s)" % ("native" if p["mode"] == "native" else "other npp"), float(np.max(np.abs(off))) / top, tol_off)
    ctx.require(float(np.max(np.abs(off))) <= tol_off * top, "KL modes do not diagonalise the Kolmogorov covariance: largest off-diagonal element %.3g of the largest variance (npp=%d, nr=%d, ri=%r)" % (float(np.max(np.abs(off))) / top, npp, nr, ri))
    tol_d = 1e-9 if p["mode"] == "native" else 1e-3
    ctx.close(np.diag(M), ev, tol_d, "diagonal of -1/2 <<K D K>> == returned variances", scale=top, name="variances (%s)" % ("native" if p["mode"] == "native" else "other npp"))
    ctx.require(bool(np.all(ev > 0)), "a returned variance is not positive: %r" % ev.tolist())
    ctx.require(bool(np.all(np.diff(ev) <= 1e-12 * top)), "variances not in non-increasing order: %r" % ev.tolist())
    ctx.close(ev[1], ev[0], 1e-12, "tip and tilt have equal variance", scale=top, name="tip tilt equal")
    # first two modes are the azimuthal-order-1 pair: K(r, theta) = R(r) cos/sin(theta)
    c, s = np.cos(th), np.sin(th)
    for i in (0, 1):
        a = K[i] @ c * 2 / npp
        b = K[i] @ s * 2 / npp
        fit = a[:, None] * c[None, :] + b[:, None] * s[None, :]
        ctx.close(K[i], fit, 1e-9, "first two modes are the azimuthal order 1 pair (tip/tilt)", scale=float(np.max(np.abs(K[i]))), name="tip tilt azimuthal order")
    ctx.require(abs(float(np.sum(K[0] * K[1]))) / n < 1e-10, "tip and tilt not orthogonal")


@st.composite
def cart_cases(draw):
    nr = draw(st.one_of(st.integers(6, 16), st.integers(17, 70)))       # the default is 40; every radial resolution must construct
    dim = draw(st.integers(8, 64))
    # the documented second route to a Cartesian rendering: set_pctr(basis, ncp, ncmar) + pol2car, with a margin of ncmar
    # pixels around the pupil (set_pctr's default margin is 2; make_kl uses 0)
    route = draw(st.sampled_from(["make_kl", "make_kl", "set_pctr"]))
    ncmar = draw(st.sampled_from([None, 0, 1, 2, 3, 5])) if route == "set_pctr" else 0
    if route == "set_pctr":
        dim = max(dim, 2 * (2 if ncmar is None else ncmar) + 8)
    return {"ri": draw(st.one_of(st.floats(0.05, 0.9), st.sampled_from([0.2, 0.5]), st.sampled_from([0.001, 0.01, 0.97, 0.99]))), "nr": nr, "dim": dim, "mask": draw(st.booleans()),
            "mask_as": draw(st.sampled_from(["bool", "bool", "numpy_bool", "int"])), "route": route, "ncmar": ncmar,
            "nmax": draw(st.integers(2, max(2, min(30, (nr * int(2 * math.pi * nr)) // 15)))), "outerscale": draw(st.sampled_from([None, None, 4.0]))}


def cart_body(ctx, p):
    kl = KL()
    ri, nr, dim, nmax, mask = p["ri"], p["nr"], p["dim"], p["nmax"], p["mask"]
    route, ncmar = p.get("route", "make_kl"), p.get("ncmar", 0)
    mask_arg = {"bool": bool(mask), "numpy_bool": np.bool_(mask), "int": int(mask)}[p.get("mask_as", "bool")]       # "mask : bool"
    ctx.case(p, nontrivial=nmax >= 6 and not (0.19 <= ri <= 0.21), classes=["masked" if mask else "unmasked", "dim_odd" if dim % 2 else "dim_even", "route_" + route, "margin_%s" % ncmar, "mask_as_" + p.get("mask_as", "bool")])
    if route == "set_pctr":
        base = quiet(kl.gkl_basis, ri, nr, int(2 * math.pi * nr), nmax)
        geom = quiet(kl.set_pctr, base, dim, ncmar) if ncmar is not None else quiet(kl.set_pctr, base, ncp=dim)
        modes = np.stack([quiet(kl.pol2car, geom, quiet(kl.gkl_sfi, base, i), mask=mask_arg) for i in range(nmax)])
        var, pupil = base["evals"], np.asarray(geom["ap"])
        ncmar = 2 if ncmar is None else ncmar
    else:
        modes, var, pupil, base = quiet(kl.make_kl, nmax, dim, ri=ri, nr=nr, mask=mask_arg)
    if route == "make_kl" and p.get("outerscale") is not None:
        m2, v2, p2, _ = quiet(kl.make_kl, nmax, dim, ri=ri, nr=nr, mask=mask_arg, stf="kolmogorov", outerscale=p["outerscale"])
        ctx.equal(m2, modes, "make_kl(stf='kolmogorov', outerscale=...) differs from make_kl without an outer scale")
        ctx.equal(np.asarray(v2), np.asarray(var), "make_kl variances change when an outer scale is passed with Kolmogorov statistics")
    ctx.require(modes.shape == (nmax, dim, dim) and pupil.shape == (dim, dim), "make_kl shapes %s %s" % (modes.shape, pupil.shape))
    ctx.require(bool(np.all(np.isfinite(modes))), "make_kl modes not finite")
    ctx.equal(np.asarray(var), np.asarray(base["evals"]), "make_kl variances == polar basis variances")
    c = (np.arange(dim) - (dim - 1) / 2.0) / ((dim - 2 * ncmar) / 2.0)      # the unit disc spans the array less the margin
    Xc, Yc = np.meshgrid(c, c)                       # x along columns, y along rows
    r2 = Xc ** 2 + Yc ** 2
    edge = (np.abs(r2 - ri ** 2) < 1e-12) | (np.abs(r2 - 1) < 1e-12)
    ind = ((r2 >= ri ** 2) & (r2 <= 1.0)).astype(float)
    ctx.require(bool(np.all((pupil == ind) | edge)), "returned pupil is not the annulus indicator on the pixel-centre grid")
    if mask:
        ctx.require(not np.any(modes[:, (ind == 0) & ~edge]), "masked KL modes are not exactly zero outside the annulus")
    npp = base["np"]
    K = np.stack([quiet(kl.gkl_sfi, base, i) for i in range(nmax)])
    cr = (r2 - ri ** 2) / (1 - ri ** 2) * nr
    cp = ((np.arctan2(Yc, Xc) + 2 * np.pi) % (2 * np.pi)) * npp / (2 * np.pi)
    inside = (ind == 1) & ~edge
    ii, jj = np.nonzero(inside)
    fr = np.floor(cr[ii, jj]).astype(int)
    ft = np.floor(cp[ii, jj]).astype(int)
    lo = np.full((nmax, len(ii)), np.inf)
    hi = np.full((nmax, len(ii)), -np.inf)
    for dr in (-1, 0, 1, 2):
        a = np.clip(fr + dr, 0, nr - 1)
        for dt in (-1, 0, 1, 2):
            b = np.clip(ft + dt, 0, npp - 1)          # the library clips (mode='nearest'), it does not wrap
            b2 = (ft + dt) % npp                       # a correct rendering may also wrap
            for bb in (b, b2):
                v = K[:, a, bb]
                lo = np.minimum(lo, v)
                hi = np.maximum(hi, v)
    vals = modes[:, ii, jj]
    span = (hi - lo)
    slack = 1e-9 * (1 + np.abs(hi) + np.abs(lo))
    bad = (vals < lo - slack) | (vals > hi + slack)
    if bad.any():
        m, k = np.argwhere(bad)[0]
        ctx.require(False, "Cartesian rendering of mode %d at pixel (row %d, col %d) = %.6g is outside the range [%.6g, %.6g] of the polar function around its (r, theta) (%d of %d pixel-mode pairs outside)" % (
            m, ii[k], jj[k], vals[m, k], lo[m, k], hi[m, k], int(bad.sum()), bad.size))


def crossing_cases(tier):
    return [{"nr": 16, "dim": 32}, {"nr": 12, "dim": 25}] + ([{"nr": 24, "dim": 40}] if tier != "quick" else [])


def crossing_body(ctx, case):
    """Random obscuration ratios never make two different modes equally strong.  The variance of the rotationally symmetric
    mode of the second group (defocus) crosses that of its neighbouring pair (astigmatism) at one ri: that ri is found by
    bisection, and the Cartesian rendering is judged there like anywhere else (each mode follows ITS polar function)."""
    kl = KL()
    nr = case["nr"]
    npp = int(2 * math.pi * nr)

    def gap(ri):
        ev = np.sort(np.asarray(quiet(kl.gkl_basis, ri, nr, npp, 6)["evals"], dtype=float)[2:5])
        # two of the three are a (cos, sin) pair with equal variance; the third is the singleton
        if abs(ev[1] - ev[0]) <= abs(ev[2] - ev[1]):
            return ev[2] - ev[0]          # singleton on top
        return ev[0] - ev[2]              # singleton at the bottom
    grid = np.linspace(0.03, 0.6, 58)
    g = [gap(r) for r in grid]
    k = next((i for i in range(len(g) - 1) if g[i] * g[i + 1] < 0), None)
    if k is None:
        ctx.reject("no_variance_crossing_found")
        return
    lo, hi = float(grid[k]), float(grid[k + 1])
    glo = g[k]
    for _ in range(70):
        mid = 0.5 * (lo + hi)
        gm = gap(mid)
        if gm == 0 or (gm > 0) == (glo > 0):
            lo, glo = mid, gm
        else:
            hi = mid
    ctx.note("variance_crossing_ri_nr%d" % nr, lo)
    for ri in (lo, hi):
        cart_body(ctx, {"ri": ri, "nr": nr, "dim": case["dim"], "mask": True, "mask_as": "bool", "route": "make_kl", "ncmar": 0, "nmax": 8, "outerscale": None})


def resolution_run(ctx):
    """make_kl must construct for EVERY radial resolution (exhaustive over nr = 5 .. 80 quick / 160 thorough): shapes, finite
    modes, annulus pupil, variances in non-increasing order."""
    kl = KL()
    top = 80 if ctx.tier == "quick" else 160
    cnt = 0
    for nr in range(5 + ctx.shard, top + 1, ctx.nshards):
        try:
            modes, var, pupil, base = quiet(kl.make_kl, 4, 8, ri=0.25, nr=nr)
        except Exception as e:
            raise Failure({"nr": nr}, Violation("make_kl(4, 8, ri=0.25, nr=%d) raised %s: %s" % (nr, type(e).__name__, str(e)[:120])), None)
        cnt += 1
        if not (modes.shape == (4, 8, 8) and np.all(np.isfinite(modes)) and np.all(np.diff(np.asarray(var)) <= 1e-12 * abs(var[0]))):
            raise Failure({"nr": nr}, Violation("make_kl(4, 8, ri=0.25, nr=%d): shape / finite / variance order" % nr), None)
    ctx.bulk(cnt, cnt, sample={"nr": top}, exhaustive=None)
    if ctx.shard == 0:
        ctx.exhaustive.append("make_kl constructs for every radial resolution nr = 5 .. %d" % top)


def resolution_replay(ctx, case):
    kl = KL()
    modes, var, pupil, base = quiet(kl.make_kl, 4, 8, ri=0.25, nr=case["nr"])
    ctx.require(modes.shape == (4, 8, 8) and bool(np.all(np.isfinite(modes))), "make_kl(nr=%d): shape / finite" % case["nr"])


LAWS = [
    Law("every_resolution_constructs", resolution_run, replay=resolution_replay, shards={"quick": 8, "thorough": 16}),
    given_law("polar_xl", polar_cases(26), polar_body, {"quick": 0, "thorough": 6}, shards={"quick": 1, "thorough": 16}),
    given_law("polar", polar_cases(), polar_body, {"quick": 20, "thorough": 200}, shards={"quick": 6, "thorough": 16}),
    plain_law("polar_production_resolution", production_cases, production_body, shards={"quick": 3, "thorough": 6}),
    plain_law("degenerate_variances", crossing_cases, crossing_body, shards={"quick": 2, "thorough": 3}),
    given_law("cartesian", cart_cases(), cart_body, {"quick": 16, "thorough": 150}, shards={"quick": 5, "thorough": 16}),
]
