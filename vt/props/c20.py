"""C20 - library calls are pure: arguments are never modified, no hidden state."""
import contextlib
import importlib
import io
import random
import warnings

import numpy as np
from hypothesis import strategies as st
from hypothesis.stateful import RuleBasedStateMachine, initialize, rule

from ..core import Violation, given_law, machine_law, plain_law
from .. import gen

RULE = ("registry built by introspection of every public callable of every aotools module (classes through wrapper calls); "
        "each has an argument builder; array arguments are offered as float64, float32, integer, non-contiguous views and "
        "read-only arrays where the function's documented domain allows. Laws: (1) no mutation - deep snapshot (bytes, "
        "shape, dtype, strides, flags) of every argument before and after, a write attempt on a read-only input counts as "
        "a mutation; (2) repeatability - same arguments twice give bit-equal results (functions whose contract is "
        "randomness run under a drawn global seed); (3) batch == per item; (4) programs - a state machine calls drawn "
        "registry functions on a bundle of shared arrays, after every step no shared array changed and memoised results "
        "still reproduce. Non-trivial: case with at least one array argument (laws 1-3); program with >=3 calls of >=2 "
        "different functions sharing >=1 array. Distinct = canonical JSON (function name, variant, seed)."
        " Also: argument variant 'nan' (one flagged sample per float array: may be rejected, never written to); screens handed out earlier are held un-copied across later add_row() calls."
        " Argument variant 'fortran' for every array argument of rank >= 2.")
OUT_PARAMS = {"turbulence.infinitephasescreen.calc_seperations_fast": 1}     # numba kernel: argument 1 is its output array

ASSUMPTIONS = ["calc_seperations_fast(positions, seperations) is a compiled kernel whose second argument is its output buffer by contract: only its first argument is required to stay unchanged",
               "plot_tps / fit_tps are excluded (GUI; fit_tps references an undefined name) and listed under coverage.unregistered",
               "private helpers (leading underscore) are not public functions"]

MODULES = ['aotools.astronomy._astronomy', 'aotools.functions.pupil', 'aotools.functions.zernike', 'aotools.functions._functions',
           'aotools.functions.karhunenLoeve', 'aotools.fouriertransform', 'aotools.interpolation', 'aotools.opticalpropagation',
           'aotools.turbulence.phasescreen', 'aotools.turbulence.infinitephasescreen', 'aotools.turbulence.temporal_ps',
           'aotools.turbulence.slopecovariance', 'aotools.turbulence.turb', 'aotools.turbulence.atmos_conversions',
           'aotools.turbulence.profile_compression', 'aotools.image_processing.centroiders', 'aotools.image_processing.contrast',
           'aotools.image_processing.psf', 'aotools.wfs.wfslib']
EXCLUDED = {"plot_tps": "opens a GUI window", "fit_tps": "references an undefined name (test_tps_fit_minimize_func) and prints"}


def public_callables():
    out = {}
    for m in MODULES:
        mod = importlib.import_module(m)
        for k, v in vars(mod).items():
            if not k.startswith("_") and callable(v) and getattr(v, "__module__", None) == m:
                out[m.split("aotools.")[1] + "." + k] = v
    return out


def quiet(f, *a, **k):
    with contextlib.redirect_stdout(io.StringIO()), warnings.catch_warnings():
        warnings.simplefilter("ignore")
        with np.errstate(all="ignore"):
            return f(*a, **k)


# ------------------------------------------------------------------ array variants

VARIANTS = ["f64", "f32", "int", "view", "readonly", "nan", "fortran"]
REPR_VARIANTS = ["f32", "int", "view", "readonly", "fortran", "reversed"]


class A:
    """Array factory for one case: content from a seeded stream, layout/dtype from the variant."""

    def __init__(self, seed, variant):
        self.rng = gen.np_rng(seed)
        self.variant = variant
        self.made = []

    def scalar(self, base, rel=0.4):
        """A scalar parameter that varies from case to case (so that state keyed on part of the arguments shows)."""
        return float(base) * (1.0 + rel * float(self.rng.uniform(-1, 1)))

    def make(self, *a, **k):
        out = self._make(*a, **k)
        self.made.append(out)
        return out

    def _make(self, shape, lo=0.0, hi=1.0, ints=True, f32=True, positive=False, complex_=False):
        v = self.variant
        base = self.rng.uniform(lo, hi, size=shape)
        if positive:
            base = np.abs(base) + 0.05
        elif base.size > 2:
            base.flat[1] = 0.0            # exact zeros expose "+= tiny" style in-place edits
        if complex_:
            base = base + 1j * self.rng.uniform(lo, hi, size=shape)
        if v == "nan" and not positive and base.size > 3:
            base.flat[2] = np.nan         # a flagged bad pixel / missing sample: whatever the function makes of it, the array is the caller's
            return base
        if v == "f32" and f32 and not complex_:
            return base.astype(np.float32)
        if v == "int" and ints and not complex_:
            return np.round(base * 20).astype(np.int64) + (1 if positive else 0)
        if v == "view":
            big = np.zeros(tuple(2 * s for s in shape), dtype=base.dtype)
            sl = tuple(slice(0, None, 2) for _ in shape)
            big[sl] = base
            return big[sl]
        if v == "readonly":
            base.setflags(write=False)
            return base
        if v == "fortran" and base.ndim >= 2:
            return np.asfortranarray(base)
        if v == "reversed" and base.ndim >= 1 and base.size:
            rev = np.ascontiguousarray(base[(slice(None, None, -1),) * base.ndim])
            return rev[(slice(None, None, -1),) * base.ndim]            # same values, negative strides
        return base


def REG():
    """name -> builder(A) -> (args, kwargs).  Built lazily so that import errors surface as harness errors."""
    c = public_callables()
    from aotools.functions.pupil import circle
    R = {}

    def relayout(o):
        # the "fortran" variant applies to every array argument of rank >= 2, whatever built it
        if isinstance(o, np.ndarray):
            return np.asfortranarray(o) if o.ndim >= 2 and o.flags.writeable else o
        if isinstance(o, (list, tuple)):
            return type(o)(relayout(x) for x in o)
        if isinstance(o, dict) and not any(k in o for k in ("evals", "radp")):       # (not the KL basis dictionaries)
            return {k: relayout(v) for k, v in o.items()}
        return o

    def reg(name, builder, seeded_global=False):
        def built(a, _b=builder):
            args, kwargs = _b(a)
            if a.variant == "fortran" and not name.endswith(("calc_seperations_fast", "mirror_covariance_matrix")):
                args, kwargs = relayout(args), relayout(kwargs)
            return args, kwargs
        R[name] = (c[name], built, seeded_global)

    # astronomy
    reg("astronomy._astronomy.photons_per_mag", lambda a: ((5.0, a.make((6, 6), ints=True), 0.1, 50.0, 0.01), {}))
    reg("astronomy._astronomy.photons_per_band", lambda a: ((5.0, a.make((6, 6)), 0.1, 0.01), {"waveband": "R"}))
    reg("astronomy._astronomy.magnitude_to_flux", lambda a: ((a.make((5,), 0, 10),), {"waveband": "K"}))
    reg("astronomy._astronomy.flux_to_magnitude", lambda a: ((1e6,), {}))
    # functions
    reg("functions.pupil.circle", lambda a: ((a.scalar(3.3), 9), {"circle_centre": (0.5, -1.0)}))
    reg("functions.zernike.phaseFromZernikes", lambda a: ((a.make((6,), -1, 1, ints=False), 12), {}))
    reg("functions.zernike.zernike_noll", lambda a: ((7, 12), {}))
    reg("functions.zernike.zernike_nm", lambda a: ((3, -1, 11), {}))
    reg("functions.zernike.zernikeRadialFunc", lambda a: ((4, 2, a.make((7, 7), 0, 1, ints=False)), {}))
    reg("functions.zernike.zernIndex", lambda a: ((23,), {}))
    reg("functions.zernike.zernikeArray", lambda a: (([2, 5, 3], 10), {"norm": "rms"}))
    reg("functions.zernike.makegammas", lambda a: ((3,), {}))
    reg("functions._functions.gaussian2d", lambda a: (((8, 6), (a.scalar(2.0), 1.5)), {"cent": (3.0, 2.5)}))
    K = "functions.karhunenLoeve."
    reg(K + "rebin", lambda a: ((a.make((4, 1), ints=False), (4, 6)), {}))
    reg(K + "stf_kolmogorov", lambda a: ((a.make((6,), 0.01, 2, ints=False),), {}))
    reg(K + "stf_vonKarman_yao", lambda a: ((a.make((6,), 0.01, 0.5, ints=False), 5.0), {}))
    reg(K + "stf_vonKarman", lambda a: ((a.make((6,), 0.0, 2, ints=False), 5.0), {}))
    reg(K + "gkl_radii", lambda a: ((0.2, 8), {}))
    reg(K + "gkl_kernel", lambda a: ((0.2, 6, _kl().gkl_radii(0.2, 6)), {}))
    reg(K + "piston_orth", lambda a: ((6,), {}))
    reg(K + "gkl_fcom", lambda a: ((0.2, _kl().gkl_kernel(0.2, 6, _kl().gkl_radii(0.2, 6)), 5), {}))
    reg(K + "gkl_azimuthal", lambda a: ((4, 30), {}))
    reg(K + "gkl_basis", lambda a: ((0.25, 8, 40, 4 + int(a.rng.integers(0, 5))), {}))
    reg(K + "gkl_sfi", lambda a: ((_basis(), 3), {}))
    reg(K + "radii", lambda a: ((6, 30, 0.2), {}))
    reg(K + "polang", lambda a: ((_kl().radii(6, 30, 0.2),), {}))
    reg(K + "set_pctr", lambda a: ((_basis(),), {"ncp": 16, "ncmar": 0}))
    reg(K + "setpincs", lambda a: (_pincs_args(), {}))
    reg(K + "pcgeom", lambda a: ((8, 40, 16, 0.25, 0), {}))
    reg(K + "pol2car", lambda a: ((_kl().pcgeom(8, 40, 16, 0.25, 0), a.make((8, 40), -1, 1, ints=False)), {"mask": True}))
    reg(K + "make_kl", lambda a: ((3 + int(a.rng.integers(0, 5)), 12), {"ri": 0.3, "nr": 8}))
    # transforms
    for n_ in ("ft", "ift"):
        reg("fouriertransform." + n_, lambda a: ((a.make((3, 8), -1, 1), 0.5), {}))
    for n_ in ("ft2", "ift2"):
        reg("fouriertransform." + n_, lambda a: ((a.make((2, 6, 6), -1, 1), 0.5), {}))
    reg("fouriertransform.rft", lambda a: ((a.make((3, 8), -1, 1), 0.5), {}))
    reg("fouriertransform.irft", lambda a: ((a.make((3, 5), -1, 1, complex_=True), 0.25), {}))
    reg("fouriertransform.rft2", lambda a: ((a.make((6, 6), -1, 1), 0.5), {}))
    reg("fouriertransform.irft2", lambda a: ((a.make((6, 4), -1, 1, complex_=True), 0.25), {}))
    # interpolation
    reg("interpolation.zoom", lambda a: ((a.make((7, 7), -1, 1, ints=False), (9, 5)), {"order": 3}))
    reg("interpolation.zoom_rbs", lambda a: ((a.make((7, 7), -1, 1, ints=False, complex_=(a.variant == "f64")), 10), {"order": 1}))
    reg("interpolation.binImgs", lambda a: ((a.make((2, 6, 4), 0, 5), 2), {}))
    # optical propagation
    O = "opticalpropagation."
    reg(O + "angularSpectrum", lambda a: ((a.make((8, 8), -1, 1, complex_=(a.variant in ("f64", "view", "readonly"))), a.scalar(1e-6, 1e-3), 1e-3, 2e-3, a.scalar(5.0)), {}))
    reg(O + "oneStepFresnel", lambda a: ((a.make((8, 8), -1, 1), a.scalar(1e-6, 1e-3), 1e-3, -a.scalar(3.0)), {}))
    reg(O + "twoStepFresnel", lambda a: ((a.make((8, 8), -1, 1), a.scalar(1e-6, 1e-3), 1e-3, 2e-3, a.scalar(5.0)), {}))
    reg(O + "lensAgainst", lambda a: ((a.make((8, 8), -1, 1), a.scalar(1e-6, 3e-4), 1e-3, 2.0), {}))
    # turbulence
    P = "turbulence.phasescreen."
    reg(P + "ft_phase_screen", lambda a: ((a.scalar(0.16), 8, 0.1, a.scalar(25.0, 3e-6), 0.01), {"seed": 5}))
    reg(P + "ft_sh_phase_screen", lambda a: ((a.scalar(0.16), 8, 0.1, 25.0, 0.01), {"seed": 5}))
    reg(P + "ift2", lambda a: ((a.make((6, 6), -1, 1, complex_=(a.variant == "f64")), 0.5), {}))
    I = "turbulence.infinitephasescreen."
    reg(I + "PhaseScreen", lambda a: ((), {}))
    reg(I + "PhaseScreenVonKarman", lambda a: ((6, 0.1, a.scalar(0.16), 25.0), {"random_seed": 3, "n_columns": 2}))
    reg(I + "PhaseScreenKolmogorov", lambda a: ((6, 0.1, a.scalar(0.16), 25.0), {"random_seed": 3, "stencil_length_factor": 2}))
    reg(I + "find_allowed_size", lambda a: ((11,), {}))
    reg(I + "calc_seperations_fast", lambda a: ((a.make((5, 2), -1, 1, ints=False, f32=False) if a.variant != "view" else np.ascontiguousarray(a.make((5, 2), -1, 1)), np.zeros((5, 5))), {}))
    reg("turbulence.temporal_ps.calc_slope_temporalps", lambda a: ((a.make((2, 9, 4), -1, 1),), {}))
    reg("turbulence.temporal_ps.get_tps_time_axis", lambda a: ((500.0, 9), {}))
    S = "turbulence.slopecovariance."
    reg(S + "CovarianceMatrix", lambda a: (_cov_args(a), {}))
    reg(S + "wfs_covariance_mpwrap", lambda a: (((3, 3, a.make((3, 2), -2, 2, ints=False), a.make((3, 2), -2, 2, ints=False), 0.5, 0.4, 0.2, 20.0),), {}))
    reg(S + "wfs_covariance", lambda a: ((3, 3, a.make((3, 2), -2, 2, ints=False), a.make((3, 2), -2, 2, ints=False), 0.5, 0.4, 0.2, 20.0), {}))
    reg(S + "calculate_wfs_seperations", lambda a: ((3, 4, a.make((3, 2), -2, 2), a.make((4, 2), -2, 2)), {}))
    for n_ in ("xx", "yy", "xy"):
        reg(S + "compute_covariance_" + n_, lambda a: ((a.make((3, 4, 2), -2, 2, ints=False), 0.5, 0.4, 0.2, 20.0), {}))
    reg(S + "structure_function_vk", lambda a: ((a.make((7,), 0.0, 30, ints=False), a.scalar(0.2), a.scalar(20.0)), {}))
    reg(S + "structure_function_kolmogorov", lambda a: ((a.make((7,), 0.0, 30), 0.2), {}))
    reg(S + "calculate_structure_function", lambda a: ((a.make((12, 16), -1, 1),), {"step": 2}))
    reg(S + "mirror_covariance_matrix", lambda a: ((np.triu(np.ones((4, 4), dtype=np.float32)) if a.variant != "readonly" else _ro(np.triu(np.ones((4, 4), dtype=np.float32))),), {}))
    reg(S + "create_tomographic_covariance_reconstructor", lambda a: ((_psd(a), 1), {"svd_conditioning": 1e-6}))
    reg("turbulence.turb.phase_covariance", lambda a: ((a.make((3, 4), 0.0, 30),  a.scalar(0.2), a.scalar(20.0)), {}))
    C = "turbulence.atmos_conversions."
    for n_, lo, hi in (("cn2_to_seeing", 1e-14, 1e-12), ("seeing_to_cn2", 0.3, 2), ("cn2_to_r0", 1e-14, 1e-12), ("r0_to_cn2", 0.05, 0.5), ("r0_to_seeing", 0.05, 0.5), ("seeing_to_r0", 0.3, 2)):
        reg(C + n_, (lambda lo, hi: lambda a: ((a.make((5,), lo, hi, ints=False, positive=True),), {"lamda": 1.2e-6}))(lo, hi))
    reg(C + "coherenceTime", lambda a: ((a.make((2, 5), 1e-15, 1e-13, ints=False, positive=True), a.make((2, 5), 1, 30, positive=True)), {"axis": 1}))
    reg(C + "isoplanaticAngle", lambda a: ((a.make((2, 5), 1e-15, 1e-13, ints=False, positive=True), a.make((2, 5), 100, 10000, positive=True)), {"axis": -1}))
    reg(C + "rytov_variance", lambda a: ((a.make((5,), 1e-15, 1e-13, ints=False, positive=True), a.make((5,), 100, 10000, positive=True)), {}))
    reg(C + "r0_from_slopes", lambda a: ((a.make((2, 4, 9), -1, 1, ints=False), 500e-9, 0.5), {}))
    reg(C + "slope_variance_from_r0", lambda a: ((0.15, 500e-9, 0.5), {}))
    PCm = "turbulence.profile_compression."
    reg(PCm + "equivalent_layers", lambda a: ((np.linspace(0, 20000, 12), a.make((12,), 1e-16, 1e-14, ints=False, positive=True), 4), {"w": a.make((12,), 1, 30, positive=True)}))
    reg(PCm + "optimal_grouping", lambda a: ((2, 3, np.linspace(0, 20000, 10), a.make((10,), 1e-16, 1e-14, ints=False, f32=False, positive=True)), {}), seeded_global=True)
    reg(PCm + "GCTM", lambda a: ((np.linspace(0, 20000, 10), a.make((10,), 1e-15, 1e-14, ints=False, positive=True), 2), {}))
    # image processing
    Ce = "image_processing.centroiders."
    reg(Ce + "correlation_centroid", lambda a: ((a.make((3, 8, 8) if a.rng.integers(0, 2) else (8, 8), 0, 1), a.make((8, 8), 0, 1)), {"threshold": 0.1, "padding": 2}))
    reg(Ce + "centre_of_gravity", lambda a: ((a.make((3, 6, 7) if a.rng.integers(0, 2) else (6, 7), 0, 1),), {"threshold": 0.3}))
    reg(Ce + "brightest_pixel", lambda a: ((a.make((3, 6, 7) if a.rng.integers(0, 2) else (6, 7), 0, 1), 0.3), {}))
    reg(Ce + "cross_correlate", lambda a: ((a.make((6, 6), 0, 1), a.make((6, 6), 0, 1)), {"padding": 2}))
    reg(Ce + "quadCell", lambda a: ((a.make((4, 2, 2), 0, 1),), {}))
    reg("image_processing.contrast.image_contrast", lambda a: ((a.make((6, 6), 0, 1, positive=True),), {}))
    reg("image_processing.contrast.rms_contrast", lambda a: ((a.make((6, 6), 0, 1, positive=True),), {}))
    reg("image_processing.psf.azimuthal_average", lambda a: ((a.make((8, 8), 0, 1),), {}))
    reg("image_processing.psf.encircled_energy", lambda a: ((a.make((12, 12), 0, 1, positive=True),), {"fraction": 0.4}))
    W = "wfs.wfslib."
    reg(W + "findActiveSubaps", lambda a: ((4, a.make((12, 12), 0, 1), 0.4), {"returnFill": True}))
    reg(W + "computeFillFactor", lambda a: ((a.make((12, 12), 0, 1), np.array([[0, 0], [3, 6], [9, 9]]), 3), {}))
    reg(W + "make_subaps_2d", lambda a: ((a.make((3, 2, 5), -1, 1), np.array([[1, 0, 1], [0, 1, 1], [1, 0, 0]])), {}))
    return R, c


def _kl():
    from aotools.functions import karhunenLoeve
    return karhunenLoeve


_BASIS = {}


def _basis():
    if "b" not in _BASIS:
        _BASIS["b"] = quiet(_kl().gkl_basis, 0.25, 8, 40, 6)
    import copy
    return copy.deepcopy(_BASIS["b"])


def _pincs_args():
    kl = _kl()
    ncp, nr, npp, ri = 16, 8, 40, 0.25
    r = kl.radii(nr, npp, ri)
    p = kl.polang(r)
    ax = (np.reshape(np.arange(ncp * ncp), (ncp, ncp)) % ncp - 0.5 * (ncp - 1)) / (0.5 * ncp)
    return (ax, ax.T.copy(), r * np.cos(p), r * np.sin(p), ri)


def _ro(x):
    x.setflags(write=False)
    return x


def _psd(a):
    m = a.make((6, 6), -1, 1, ints=False)
    out = (np.asarray(m, dtype=np.float64) @ np.asarray(m, dtype=np.float64).T + 0.5 * np.eye(6)).astype(np.float32 if a.variant == "f32" else np.float64)
    if a.variant == "readonly":
        out.setflags(write=False)
    return out


def _cov_args(a):
    masks = [a.make((3, 3), 0, 1, f32=False).round().astype(int) if a.variant == "int" else np.array([[1, 1, 0], [1, 1, 1], [0, 1, 1]]), np.array([[1, 1, 0], [0, 1, 1], [0, 1, 1]])]
    masks[0][1, 1] = 1
    return (2, masks, 3.0, [1.0, 1.0], [0, 90000.0], [[0.0, 0.0], [20.0, -10.0]], [500e-9, 589e-9], 2, np.array([0.0, 5000.0]), [0.2, 0.4], [20.0, 30.0], 1)


def call(name, fn, args, kwargs):
    """Invoke a registry entry; classes are exercised through their main methods."""
    short = name.split(".")[-1]
    if short == "PhaseScreen":
        return None
    if short in ("PhaseScreenVonKarman", "PhaseScreenKolmogorov"):
        o = fn(*args, **kwargs)
        held = o.scrn
        a = np.array(held, copy=True)
        r1 = o.add_row()
        b = np.array(r1, copy=True)
        o.add_row()
        # results already handed out are the caller's: a later call must not rewrite them
        if not (np.array_equal(held, a) and np.array_equal(r1, b)):
            raise Violation("%s: a screen handed out earlier (by .scrn or add_row()) was rewritten by a later add_row()" % short)
        return [a, b, str(o) if short == "PhaseScreenKolmogorov" else ""]
    if short == "CovarianceMatrix":
        o = fn(*args, **kwargs)
        m = np.array(o.make_covariance_matrix(), copy=True)
        r = np.array(o.make_tomographic_reconstructor(svd_conditioning=1e-3), copy=True)
        return [m, r]
    return fn(*args, **kwargs)


# ------------------------------------------------------------------ snapshots

def snap(o):
    if isinstance(o, np.ndarray):
        return ("nd", o.shape, str(o.dtype), o.strides, bool(o.flags.writeable), np.ascontiguousarray(o).tobytes())
    if isinstance(o, (list, tuple)):
        return (type(o).__name__,) + tuple(snap(x) for x in o)
    if isinstance(o, dict):
        return ("dict",) + tuple((k, snap(v)) for k, v in sorted(o.items(), key=lambda kv: str(kv[0])))
    if isinstance(o, (int, float, complex, str, bool, np.generic)) or o is None:
        return ("v", repr(o))
    return ("obj", type(o).__name__)


def describe_change(before, after, path="arg"):
    if before == after:
        return None
    if before[0] == "nd" and after[0] == "nd":
        what = []
        for label, i in (("shape", 1), ("dtype", 2), ("strides", 3), ("writeable flag", 4)):
            if before[i] != after[i]:
                what.append("%s %r -> %r" % (label, before[i], after[i]))
        if before[5] != after[5]:
            what.append("values changed")
        return "%s: %s" % (path, ", ".join(what))
    if before[0] == after[0] and before[0] in ("list", "tuple", "dict") and len(before) == len(after):
        for i, (b, a_) in enumerate(zip(before[1:], after[1:])):
            if b != a_:
                if before[0] == "dict":
                    return describe_change(b[1], a_[1], "%s[%r]" % (path, b[0]))
                return describe_change(b, a_, "%s[%d]" % (path, i))
    return "%s changed" % path


def same_result(a, b):
    if isinstance(a, np.ndarray) or isinstance(b, np.ndarray):
        return isinstance(a, np.ndarray) and isinstance(b, np.ndarray) and a.shape == b.shape and a.dtype == b.dtype and np.array_equal(a, b, equal_nan=True)
    if isinstance(a, (list, tuple)):
        return isinstance(b, (list, tuple)) and len(a) == len(b) and all(same_result(x, y) for x, y in zip(a, b))
    if isinstance(a, dict):
        return isinstance(b, dict) and a.keys() == b.keys() and all(same_result(a[k], b[k]) for k in a)
    if isinstance(a, float) and isinstance(b, float) and a != a and b != b:
        return True
    try:
        return bool(a == b)
    except Exception:
        return True


def refresh_in_place(dst, src, counter):
    """Copy the content of src into the arrays of dst (same objects); everything that cannot be refreshed is taken from src."""
    if isinstance(dst, np.ndarray) and isinstance(src, np.ndarray) and dst.shape == src.shape and dst.dtype == src.dtype and dst.flags.writeable:
        np.copyto(dst, src)
        counter[0] += 1
        return dst
    if isinstance(dst, (list, tuple)) and isinstance(src, (list, tuple)) and len(dst) == len(src):
        return type(dst)(refresh_in_place(d, s_, counter) for d, s_ in zip(dst, src))
    if isinstance(dst, dict) and isinstance(src, dict) and dst.keys() == src.keys():
        return {k: refresh_in_place(dst[k], src[k], counter) for k in dst}
    return src


def permute_in_place(o, counter):
    """Roll the content of every writeable ndarray with >= 2 distinct values by one place along its last axis, in place:
    same objects, same shape, dtype, minimum, maximum, sum - other content."""
    if isinstance(o, np.ndarray):
        if o.flags.writeable and o.ndim >= 1 and o.shape[-1] >= 2:
            rolled = np.roll(o, 1, axis=-1)
            if not same_result(rolled, o):
                np.copyto(o, rolled)
                counter[0] += 1
    elif isinstance(o, (list, tuple)):
        for x in o:
            permute_in_place(x, counter)
    elif isinstance(o, dict):
        for x in o.values():
            permute_in_place(x, counter)


def scribble(o):
    """Overwrite every writeable ndarray inside a result (in place); returns how many were overwritten."""
    n = 0
    if isinstance(o, np.ndarray):
        if o.flags.writeable and o.size:
            try:
                o[...] = 7 if o.dtype.kind in "iub" else -123.456
                n += 1
            except (ValueError, TypeError):
                pass
    elif isinstance(o, (list, tuple)):
        for x in o:
            n += scribble(x)
    elif isinstance(o, dict):
        for x in o.values():
            n += scribble(x)
    return n


# ------------------------------------------------------------------ laws 1 + 2

def names_strategy():
    R, _ = REG()
    return sorted(R)


def one_call_body(ctx, case):
    R, _ = REG()
    name, variant, seed = case["name"], case["variant"], case["seed"]
    fn, builder, seeded_global = R[name]
    a = A(seed, variant)
    args, kwargs = builder(a)
    has_arr = any(isinstance(x, np.ndarray) for x in list(args) + list(kwargs.values())) or any(isinstance(x, (list, tuple, dict)) for x in args)
    ctx.case(case, nontrivial=has_arr, classes=["fn_" + name.split(".")[-1], "variant_" + variant])
    watched = lambda: snap((tuple(x for i, x in enumerate(args) if i != OUT_PARAMS.get(name, -1)), kwargs))
    before = watched()
    st_np, st_py = np.random.get_state(), random.getstate()
    try:
        np.random.seed(seed % (2**32))
        try:
            r1 = quiet(call, name, fn, args, kwargs)
        except Exception as e:
            if isinstance(e, ValueError) and "read-only" in str(e):
                raise Violation("%s attempted an in-place write to a read-only argument (%s)" % (name, e))
            if variant == "nan" and not isinstance(e, Violation):
                # rejecting data with a NaN is an answer; the arguments must still be the caller's
                ch = describe_change(before, watched(), "arguments")
                ctx.require(ch is None, "%s modified its arguments (nan variant, call raised %s): %s" % (name, type(e).__name__, ch))
                ctx.classes["nan_rejected_by_function"] += 1
                return
            raise
        except (TypeError, np.exceptions.DTypePromotionError if hasattr(np, "exceptions") else TypeError) as e:
            if "Cannot cast ufunc" in str(e) or "same_kind" in str(e):
                raise Violation("%s attempted an in-place operation on its %s argument (%s)" % (name, variant, str(e)[:120]))
            raise
        ch = describe_change(before, watched(), "arguments")
        ctx.require(ch is None, "%s modified its arguments (%s variant): %s" % (name, variant, ch))
        # repeatability with equal arguments (fresh copies built from the same seed), same global seed
        a2 = A(seed, variant)
        args2, kwargs2 = builder(a2)
        np.random.seed(seed % (2**32))
        r2 = quiet(call, name, fn, args2, kwargs2)
        ctx.require(same_result(r1, r2), "%s returned different results for equal arguments (hidden state)" % name)
        # ... and once more with the same (unmodified) argument objects
        np.random.seed(seed % (2**32))
        r3 = quiet(call, name, fn, args, kwargs)
        ctx.require(same_result(r1, r3), "%s returned a different result when called again with the same (unmodified) arguments" % name)
        # the caller owns what it gets back: overwriting a returned array must not change what an equal call returns later
        import copy
        keep = copy.deepcopy(r1)
        n_scribbled = scribble(r1) + scribble(r3)
        if n_scribbled:
            a4, k4 = builder(A(seed, variant))
            np.random.seed(seed % (2**32))
            r4 = quiet(call, name, fn, a4, k4)
            ctx.require(same_result(keep, r4), "%s: after the caller overwrote the array it got back, an equal call returns a different result (returned array is shared hidden state)" % name)
            ctx.classes["result_scribble_checked"] += 1
        # the same argument OBJECTS refreshed in place with other content (a frame buffer, a running reference, a pupil that
        # gets a spider drawn into it) must give what fresh arrays with that content give: nothing may be remembered by identity
        if variant != "readonly":
            a5, k5 = builder(A(seed, variant))
            a6, k6 = builder(A(seed + 7919, variant))
            try:
                np.random.seed(seed % (2**32))
                want = quiet(call, name, fn, *copy.deepcopy((a6, k6)))
            except Exception:
                want = None                                      # the other content is not a valid input for this function
            if want is not None:
                np.random.seed(seed % (2**32))
                quiet(call, name, fn, a5, k5)                    # the call that could remember its arguments
                n_ref = [0]
                a5r, k5r = refresh_in_place(a5, a6, n_ref), refresh_in_place(k5, k6, n_ref)
                if n_ref[0]:
                    np.random.seed(seed % (2**32))
                    got = quiet(call, name, fn, a5r, k5r)
                    ctx.require(same_result(got, want), "%s: called again with the same argument objects after the caller refreshed their content in place, it does not return what fresh arrays with that content give (something is remembered by object identity)" % name)
                    ctx.classes["arguments_refreshed_in_place"] += 1
        # the same argument objects with their content PERMUTED in place (a reference image rolled by a pixel, a frame
        # buffer shifted): every summary of the arrays (shape, dtype, min, max, sum) is unchanged, so only a function that
        # remembers an argument by identity plus such a summary can tell - and must not
        if variant != "readonly":
            a7, k7 = builder(A(seed, variant))
            np.random.seed(seed % (2**32))
            quiet(call, name, fn, a7, k7)
            n_perm = [0]
            permute_in_place((tuple(x for i, x in enumerate(a7) if i != OUT_PARAMS.get(name, -1)), k7), n_perm)
            if n_perm[0]:
                try:
                    np.random.seed(seed % (2**32))
                    got = quiet(call, name, fn, a7, k7)
                    np.random.seed(seed % (2**32))
                    want = quiet(call, name, fn, *copy.deepcopy((a7, k7)))
                except Exception:
                    got = want = None                            # the permuted content is not a valid input for this function
                    ctx.classes["permuted_content_rejected"] += 1
                if want is not None:
                    ctx.require(same_result(got, want), "%s: called again with the same argument objects after the caller permuted their content in place (same shape, dtype, min, max, sum), it does not return what fresh arrays with that content give (something is remembered by object identity)" % name)
                    ctx.classes["arguments_permuted_in_place"] += 1
    finally:
        np.random.set_state(st_np)
        random.setstate(st_py)


@st.composite
def one_call_cases(draw):
    names = names_strategy()
    return {"name": draw(st.sampled_from(names)), "variant": draw(st.sampled_from(VARIANTS)), "seed": draw(st.integers(0, 2**31))}


def round_robin_cases(tier):
    """Every registered function with every variant (enforced, not left to chance)."""
    names = names_strategy()
    reps = 1 if tier == "quick" else 4
    return [{"name": n, "variant": v, "seed": 1000 * k + i} for i, n in enumerate(names) for v in VARIANTS for k in range(reps)]


def registry_body(ctx, case):
    """The registry covers every public callable (visible, not silently skipped)."""
    R, c = REG()
    missing = sorted(set(c) - set(R) - {k for k in c if k.split(".")[-1] in EXCLUDED})
    ctx.case(case, nontrivial=True)
    ctx.note("registered", len(R))
    ctx.note("public_callables", len(c))
    ctx.note("unregistered", missing)
    ctx.note("excluded", EXCLUDED)
    from ..core import HarnessError
    if missing:
        raise HarnessError("public callables without an argument builder: %r" % missing)


# ------------------------------------------------------------------ equal arguments in another representation give equal results

def canonical(o, made=None):
    """The same numbers as plain C-contiguous writeable float64 / complex128 arrays (only for the data arrays the
    factory produced; index/coordinate arrays written out in a builder are left alone)."""
    if isinstance(o, np.ndarray):
        if made is not None and not any(o is m for m in made):
            return o.copy()
        if o.dtype.kind == "c":
            return np.array(o, dtype=np.complex128, order="C", copy=True)
        if o.dtype.kind in "fiu":
            return np.array(o, dtype=np.float64, order="C", copy=True)
        return np.array(o, order="C", copy=True)
    if isinstance(o, list):
        return [canonical(x, made) for x in o]
    if isinstance(o, tuple):
        return tuple(canonical(x, made) for x in o)
    if isinstance(o, dict):
        return {k: canonical(v, made) for k, v in o.items()}
    return o


def has_dtype(o, kinds):
    if isinstance(o, np.ndarray):
        return str(o.dtype) in kinds
    if isinstance(o, (list, tuple)):
        return any(has_dtype(x, kinds) for x in o)
    if isinstance(o, dict):
        return any(has_dtype(x, kinds) for x in o.values())
    return False


def compare_results(ctx, a, b, tol, what):
    if isinstance(a, np.ndarray) or isinstance(b, np.ndarray):
        a_, b_ = np.asarray(a), np.asarray(b)
        ctx.require(a_.shape == b_.shape, "%s: result shapes %s vs %s" % (what, a_.shape, b_.shape))
        if a_.dtype.kind in "fciub" and b_.dtype.kind in "fciub" and a_.size:
            af, bf = a_.astype(np.complex128), b_.astype(np.complex128)
            fin = np.isfinite(bf)
            ctx.require(bool(np.all(np.isfinite(af) == fin)), "%s: non-finite values appear in one representation only" % what)
            sc = float(np.max(np.abs(bf[fin]))) if fin.any() else 1.0
            err = float(np.max(np.abs(af[fin] - bf[fin]))) / (sc or 1.0) if fin.any() else 0.0
            ctx.require(err <= tol, "%s: results differ by %.3g of their scale (tolerance %.1g)" % (what, err, tol))
        return
    if isinstance(a, (list, tuple)) and isinstance(b, (list, tuple)):
        ctx.require(len(a) == len(b), "%s: result lengths differ" % what)
        for x, y in zip(a, b):
            compare_results(ctx, x, y, tol, what)
        return
    if isinstance(a, dict) and isinstance(b, dict):
        for k in a:
            if k in b:
                compare_results(ctx, a[k], b[k], tol, what)
        return
    if isinstance(a, (int, float, complex, np.generic)) and isinstance(b, (int, float, complex, np.generic)):
        compare_results(ctx, np.asarray(a), np.asarray(b), tol, what)


def repr_cases(tier):
    names = names_strategy()
    reps = 1 if tier == "quick" else 3
    return [{"name": n, "variant": v, "seed": 500 + 31 * k + i} for i, n in enumerate(names) for v in REPR_VARIANTS for k in range(reps)]


def repr_body(ctx, case):
    """Equal numbers in another representation (single precision, integer dtype, strided / Fortran / reversed view,
    read-only) must give the same result as plain float64 C arrays, up to the working precision of the representation."""
    R, _ = REG()
    name, variant, seed = case["name"], case["variant"], case["seed"]
    fn, builder, _ = R[name]
    fac = A(seed, variant)
    args, kwargs = builder(fac)
    cargs, ckwargs = canonical(args, fac.made), canonical(kwargs, fac.made)
    arrs = any(isinstance(x, np.ndarray) for x in list(args) + list(kwargs.values()))
    ctx.case(case, nontrivial=arrs, classes=["fn_" + name.split(".")[-1], "variant_" + variant])
    if name.endswith("calc_seperations_fast") or name.endswith("mirror_covariance_matrix"):
        return                                   # compiled kernel / bit-pattern helper: one fixed dtype by contract
    st_np = np.random.get_state()
    try:
        np.random.seed(seed % (2**32))
        try:
            rv = quiet(call, name, fn, args, kwargs)
        except ValueError as e:
            if "read-only" in str(e):
                raise Violation("%s attempted an in-place write to a read-only argument (%s)" % (name, e))
            raise
        np.random.seed(seed % (2**32))
        rc = quiet(call, name, fn, cargs, ckwargs)
    finally:
        np.random.set_state(st_np)
    single = has_dtype(args, ("float32", "complex64")) or has_dtype(kwargs, ("float32", "complex64"))
    compare_results(ctx, rv, rc, 2e-3 if single else 1e-9, "%s with %s arguments vs the same numbers as float64 C arrays" % (name, variant))


# ------------------------------------------------------------------ hidden state across calls: main process vs pristine process

def fresh_cases(tier):
    names = names_strategy()
    return [{"name": n, "variant": v, "seed": 77 + i} for i, n in enumerate(names) for v in (["f64"] if tier == "quick" else ["f64", "f32", "view"])]


def fresh_body(ctx, case):
    """Call f on other arguments first (the worker has also executed many other calls), then on the case's arguments;
    the result must be what a pristine interpreter computes for the case's arguments alone.  This exposes caches or
    other module-level state keyed on less than the full argument list, which in-process repetition cannot see."""
    import json, os, subprocess, sys
    from ..core import VERIF_DIR, REPO_DIR, HarnessError
    from ..isolated_call import digest
    R, _ = REG()
    name, variant, seed = case["name"], case["variant"], case["seed"]
    fn, builder, _ = R[name]
    ctx.case(case, nontrivial=True, classes=["fn_" + name.split(".")[-1]])
    st_np = np.random.get_state()
    try:
        for other in (seed + 1000, seed + 2000):          # neighbouring arguments: same shapes and dtypes, other values
            a0, k0 = builder(A(other, variant))
            np.random.seed(other % (2**32))
            quiet(call, name, fn, a0, k0)
        args, kwargs = builder(A(seed, variant))
        np.random.seed(seed % (2**32))
        here = digest(quiet(call, name, fn, args, kwargs))
    finally:
        np.random.set_state(st_np)
    # (its own string-hash salt: results must not depend on which run of the program computes them)
    env = dict(os.environ, PYTHONPATH=VERIF_DIR, VERIF_REPO=REPO_DIR, PYTHONHASHSEED=str(1 + seed % 4000), NUMBA_NUM_THREADS="1", OMP_NUM_THREADS="1", MPLBACKEND="Agg")
    p = subprocess.run([sys.executable, "-m", "vt.isolated_call", name, variant, str(seed)], capture_output=True, text=True, env=env, cwd=VERIF_DIR, timeout=900)
    if p.returncode != 0:
        raise HarnessError("isolated call of %s failed: %s" % (name, p.stderr[-400:]))
    fresh = json.loads(p.stdout)["digest"]
    ctx.require(here == fresh, "%s returns a different result after earlier calls with other arguments than in a pristine process (hidden state between calls)" % name)


# ------------------------------------------------------------------ law 3: batch == per item

BATCH = {
    "ft": lambda m, x: [m.ft(x, 0.5), np.stack([m.ft(x[i], 0.5) for i in range(len(x))])],
    "ift": lambda m, x: [m.ift(x, 0.5), np.stack([m.ift(x[i], 0.5) for i in range(len(x))])],
    "ft2": lambda m, x: [m.ft2(x, 0.5), np.stack([m.ft2(x[i], 0.5) for i in range(len(x))])],
    "ift2": lambda m, x: [m.ift2(x, 0.5), np.stack([m.ift2(x[i], 0.5) for i in range(len(x))])],
    "rft": lambda m, x: [m.rft(x, 0.5), np.stack([m.rft(x[i], 0.5) for i in range(len(x))])],
    "binImgs": lambda m, x: [m.binImgs(x, 2), np.stack([m.binImgs(x[i], 2) for i in range(len(x))])],
    "quadCell": lambda m, x: [m.quadCell(x[:, :2, :2]), np.stack([m.quadCell(x[i, :2, :2]) for i in range(len(x))], axis=1)],
    "centre_of_gravity": lambda m, x: [m.centre_of_gravity(np.abs(x)), np.stack([m.centre_of_gravity(np.abs(x[i])) for i in range(len(x))], axis=1)],
    "brightest_pixel": lambda m, x: [m.brightest_pixel(np.abs(x).copy(), 0.5), np.stack([m.brightest_pixel(np.abs(x[i]).copy(), 0.5) for i in range(len(x))], axis=1)],
    "calc_slope_temporalps": lambda m, x: [np.stack(m.calc_slope_temporalps(x)), np.stack([np.stack(m.calc_slope_temporalps(x[i])) for i in range(len(x))], axis=1)],
    "rft2": lambda m, x: [m.rft2(x, 0.5), np.stack([m.rft2(x[i], 0.5) for i in range(len(x))])],
    # frames on their own pedestals (0, 1, 2 ... counts), as sub-aperture images on different sky levels are
    "correlation_centroid": lambda m, x: [m.correlation_centroid(np.abs(x) + np.arange(len(x))[:, None, None], np.abs(x[0]), padding=2),
                                          np.concatenate([m.correlation_centroid(np.abs(x[i]) + i, np.abs(x[0]), padding=2) for i in range(len(x))], axis=1)],
    "correlation_centroid_t": lambda m, x: [m.correlation_centroid(np.abs(x) + np.arange(len(x))[:, None, None], np.abs(x[0]), threshold=0.2),
                                            np.concatenate([m.correlation_centroid((np.abs(x[i]) + i)[None], np.abs(x[0]), threshold=0.2) for i in range(len(x))], axis=1)],
    "azimuthal_is_2d_only": None,
}
BATCH_MOD = {"ft": "fouriertransform", "ift": "fouriertransform", "ft2": "fouriertransform", "ift2": "fouriertransform", "rft": "fouriertransform",
             "binImgs": "interpolation", "quadCell": "image_processing.centroiders", "centre_of_gravity": "image_processing.centroiders",
             "brightest_pixel": "image_processing.centroiders", "calc_slope_temporalps": "turbulence.temporal_ps",
             "rft2": "fouriertransform", "correlation_centroid": "image_processing.centroiders", "correlation_centroid_t": "image_processing.centroiders"}


@st.composite
def batch_cases(draw):
    return {"fn": draw(st.sampled_from(sorted(BATCH_MOD))), "n": draw(st.integers(1, 4)), "size": 2 * draw(st.integers(1, 5)), "size2": 2 * draw(st.integers(1, 5)), "seed": draw(st.integers(0, 2**31)),
            "lead2": draw(st.booleans()),
            "dtype": draw(st.sampled_from(["float64", "float64", "float32"]))}


def batch_body(ctx, case):
    mod = importlib.import_module("aotools." + BATCH_MOD[case["fn"]])
    nonsq = case["fn"] in ("centre_of_gravity", "brightest_pixel", "ft", "ift", "rft", "binImgs", "calc_slope_temporalps")      # no square-image requirement
    s2 = case.get("size2", case["size"]) if nonsq else case["size"]
    x = gen.np_rng(case["seed"]).normal(size=(case["n"], case["size"], s2)).astype(case["dtype"])
    ctx.case(case, nontrivial=case["n"] >= 2, classes=["fn_" + case["fn"], case["dtype"], "square" if s2 == case["size"] else "non_square"])
    x0 = x.copy()
    got, per = quiet(BATCH[case["fn"]], mod, x)
    ctx.equal(x, x0, "%s modified its (stack) argument" % case["fn"])
    ctx.close(np.asarray(got), np.asarray(per), 1e-12 if case["dtype"] == "float64" else 2e-5, "%s(stack) == per item" % case["fn"], scale=float(np.max(np.abs(per))) or 1.0, name="batch " + case["fn"])


# ------------------------------------------------------------------ law 4: programs on shared arrays

PROGRAM_FUNCS = {
    # name -> (module, callable taking a 2-D shared array)
    "centre_of_gravity_t": ("image_processing.centroiders", lambda m, x: m.centre_of_gravity(x, threshold=0.2)),
    "centre_of_gravity_stack_t": ("image_processing.centroiders", lambda m, x: m.centre_of_gravity(x[None], threshold=0.2)),
    "brightest_pixel": ("image_processing.centroiders", lambda m, x: m.brightest_pixel(x, 0.4)),
    "correlation_centroid": ("image_processing.centroiders", lambda m, x: m.correlation_centroid(x, x, padding=2)),
    "cross_correlate": ("image_processing.centroiders", lambda m, x: m.cross_correlate(x, x)),
    "quadCell": ("image_processing.centroiders", lambda m, x: m.quadCell(x[:2, :2])),
    "rms_contrast": ("image_processing.contrast", lambda m, x: m.rms_contrast(x)),
    "image_contrast": ("image_processing.contrast", lambda m, x: m.image_contrast(x)),
    "azimuthal_average": ("image_processing.psf", lambda m, x: m.azimuthal_average(x)),
    "encircled_energy": ("image_processing.psf", lambda m, x: m.encircled_energy(x)),
    "ft2": ("fouriertransform", lambda m, x: m.ft2(x, 0.5)),
    "ift2": ("fouriertransform", lambda m, x: m.ift2(x, 0.5)),
    "rft2": ("fouriertransform", lambda m, x: m.rft2(x, 0.5)),
    "binImgs": ("interpolation", lambda m, x: m.binImgs(x, 2)),
    "zoom": ("interpolation", lambda m, x: m.zoom(x, 11)),
    "angularSpectrum0": ("opticalpropagation", lambda m, x: m.angularSpectrum(x, 1e-6, 1e-3, 1e-3, 0)),
    "angularSpectrum": ("opticalpropagation", lambda m, x: m.angularSpectrum(x, 1e-6, 1e-3, 2e-3, 3.0)),
    "twoStepFresnel": ("opticalpropagation", lambda m, x: m.twoStepFresnel(x, 1e-6, 1e-3, 1e-3, 3.0)),
    "phase_covariance": ("turbulence.turb", lambda m, x: m.phase_covariance(x, 0.2, 20.0)),
    "structure_function_vk": ("turbulence.slopecovariance", lambda m, x: m.structure_function_vk(x, 0.2, 20.0)),
    "calculate_structure_function": ("turbulence.slopecovariance", lambda m, x: m.calculate_structure_function(x)),
    "calc_slope_temporalps": ("turbulence.temporal_ps", lambda m, x: np.stack(m.calc_slope_temporalps(x))),
    "findActiveSubaps": ("wfs.wfslib", lambda m, x: m.findActiveSubaps(2, x, 0.3)),
    "photons_per_band": ("astronomy._astronomy", lambda m, x: m.photons_per_band(4.0, x, 0.1, 0.01)),
    "zernikeRadialFunc": ("functions.zernike", lambda m, x: m.zernikeRadialFunc(3, 1, x)),
}


class ProgModel:
    def __init__(self, ctx, seed, dtypes):
        rng = gen.np_rng(seed)
        self.ctx = ctx
        self.arrs = [(rng.uniform(0.05, 1.0, size=(8, 8))).astype(dt) for dt in dtypes]
        self.snaps = [snap(a) for a in self.arrs]
        self.memo = {}
        self.calls = []

    def apply(self, op):
        fname, i = op["f"], op["i"] % len(self.arrs)
        modname, f = PROGRAM_FUNCS[fname]
        mod = importlib.import_module("aotools." + modname)
        x = self.arrs[i]
        try:
            r = quiet(f, mod, x)
        except ValueError as e:
            if "read-only" in str(e):
                raise Violation("%s attempted an in-place write" % fname)
            raise
        self.calls.append((fname, i))
        for k, (a, s0) in enumerate(zip(self.arrs, self.snaps)):
            ch = describe_change(s0, snap(a), "shared array %d" % k)
            self.ctx.require(ch is None, "after calling %s on shared array %d: %s" % (fname, i, ch))
        key = (fname, i)
        r = r if not isinstance(r, np.ndarray) else np.array(r, copy=True)
        if key in self.memo:
            self.ctx.require(same_result(self.memo[key], r), "%s on shared array %d returned a different result than earlier in the program (calls so far: %r)" % (fname, i, self.calls))
        else:
            self.memo[key] = r

    def nontrivial(self):
        return len(self.calls) >= 3 and len({c[0] for c in self.calls}) >= 2 and any(sum(1 for c in self.calls if c[1] == i) >= 2 for i in range(len(self.arrs)))


def make_machine(ctx, box):
    class M(RuleBasedStateMachine):
        def __init__(self):
            super().__init__()
            self.history = []
            box["history"] = self.history
            self.model = None

        @initialize(seed=st.integers(0, 2**31), dtypes=st.lists(st.sampled_from(["float64", "float64", "float32"]), min_size=1, max_size=3))
        def init(self, seed, dtypes):
            self.history.append({"op": "init", "seed": seed, "dtypes": dtypes})
            self.model = ProgModel(ctx, seed, dtypes)

        @rule(f=st.sampled_from(sorted(PROGRAM_FUNCS)), i=st.integers(0, 2))
        def call(self, f, i):
            op = {"op": "call", "f": f, "i": i}
            self.history.append(op)
            self.model.apply(op)

        def teardown(self):
            if self.model is not None:
                ctx.case(self.history, nontrivial=self.model.nontrivial(), classes=["calls_ge_3" if len(self.model.calls) >= 3 else "calls_lt_3"] + sorted({"fn_" + c[0] for c in self.model.calls}))
    return M


def replay_history(ctx, history):
    m = None
    for op in history:
        if op["op"] == "init":
            m = ProgModel(ctx, op["seed"], op["dtypes"])
        else:
            m.apply(op)


LAWS = [
    plain_law("registry_complete", lambda tier: [{"check": "registry"}], registry_body),
    plain_law("every_function_every_variant", round_robin_cases, one_call_body, shards={"quick": 8, "thorough": 16}),
    plain_law("representation_independence", repr_cases, repr_body, shards={"quick": 8, "thorough": 16}),
    plain_law("pristine_process_agreement", fresh_cases, fresh_body, shards={"quick": 12, "thorough": 16}),
    given_law("no_mutation_repeatable", one_call_cases(), one_call_body, {"quick": 100, "thorough": 1200}, shards={"quick": 6, "thorough": 16}),
    given_law("batch", batch_cases(), batch_body, {"quick": 150, "thorough": 2000}, shards={"quick": 3, "thorough": 16}),
    machine_law("programs", make_machine, replay_history, {"quick": 60, "thorough": 600}, {"quick": 12, "thorough": 25}, shards={"quick": 6, "thorough": 16}),
]
