"""C19 - empirical estimators implement their definitions."""
import math

import numpy as np
from hypothesis import strategies as st

from ..core import given_law
from .. import gen
from ..oracles import dft

RULE = ("structure function: 2-D arrays (a,b), a,b in 2..48 square and not, step 1..4, nbOfPoint drawn or default; oracle = "
        "direct mean squared difference for every returned lag j with j*step < a, lag 0 == 0, exact ramps (dyadic slopes), "
        "quadratic amplitude scaling, length rule; the allocator is poisoned before each call so that an uninitialised "
        "output is visible. temporal power spectrum: shapes (..., nFrames, nSub), nFrames 2..65 odd/even, 0-2 leading "
        "axes; oracle = slow DFT along the frame axis, squared modulus, mean / standard error over sub-apertures, bins "
        "0..floor(n/2)-1; quadratic scaling, Parseval with the dropped bins computed independently, sinusoid peak, "
        "frequency axis k*rate/n. Non-trivial: non-square phase or step>=2; odd frame count or leading axes."
        " Also: 1025-20000 sub-apertures with few frames, phases up to 66 x 16385; every returned array is overwritten and an equal call must still return the saved result."
        " The phase also Fortran-ordered, as a transposed view and as a strided slice (equal to rounding).")
ASSUMPTIONS = ["lags that do not exist along the first axis (j*step >= shape[0]) are not judged",
               "tolerances 1e-10 relative (double precision sums)"]


def S():
    from aotools.turbulence import slopecovariance, temporal_ps
    return slopecovariance, temporal_ps


@st.composite
def sf_cases(draw):
    a, b = draw(st.integers(2, 48)), draw(st.integers(2, 48))
    if draw(st.booleans()):
        b = a
    kind = draw(st.sampled_from(["noise", "ramp", "noise", "quad", "column_offsets", "counts"]))
    step = draw(st.one_of(st.none(), st.integers(1, 4)))
    nb = draw(st.one_of(st.none(), st.integers(1, 30)))
    if draw(st.integers(0, 24)) == 0:
        # sizes beyond the round numbers at which an implementation might start to work in blocks
        a, b = draw(st.sampled_from([(130, 1030), (257, 4097), (600, 3), (1025, 1), (66, 16385)]))
        nb = draw(st.integers(1, 5))
    return {"a": a, "b": b, "kind": kind, "step": step, "nb": nb, "slope": draw(gen.dyadic(-4, 4, 8)), "slope2": draw(gen.dyadic(-2, 2, 8)),
            "seed": draw(st.integers(0, 2**32 - 1)), "k": draw(gen.dyadic(-4, 4, 4)), "masked": draw(st.sampled_from([None, None, "pupil", "random"]))}


def sf_masked(ctx, sc, exact, case, kw, st_):
    """The phase inside a pupil, as a numpy.ma.MaskedArray (the usual container for it): the mean squared difference at a lag
    is over the pixel pairs that both exist; whatever number sits under the mask is not phase."""
    import warnings
    a, b = exact.shape
    rng_ = gen.np_rng(case["seed"] + 1)
    if case["masked"] == "pupil":
        cy, cx = (a - 1) / 2.0, (b - 1) / 2.0
        bad = ((np.arange(a)[:, None] - cy) / (a / 2.0)) ** 2 + ((np.arange(b)[None, :] - cx) / (b / 2.0)) ** 2 > 1.0
    else:
        bad = rng_.uniform(size=(a, b)) < 0.3
    if not bad.any() or bad.all():
        return
    data = exact.copy()
    data[bad] = rng_.choice([0.0, 1e6, -3e4], size=int(bad.sum()))          # under the mask: anything
    ph = np.ma.masked_array(data, mask=bad)
    with np.errstate(all="ignore"), warnings.catch_warnings():
        warnings.simplefilter("ignore")
        sf = np.ma.filled(sc.calculate_structure_function(ph, **kw), np.nan)
    ctx.classes["masked_" + case["masked"]] += 1
    ctx.equal(np.ma.getdata(ph), data, "calculate_structure_function modified the data of its masked input")
    ctx.equal(np.ma.getmaskarray(ph), bad, "calculate_structure_function modified the mask of its input")
    for j in range(1, len(sf)):
        lag = j * st_
        if lag >= a:
            continue
        ok = ~bad[:-lag, :] & ~bad[lag:, :]
        if not ok.any():
            continue
        want = float(np.mean(((exact[:-lag, :] - exact[lag:, :]) ** 2)[ok]))
        ctx.close(float(sf[j]), want, 1e-12, "masked phase (%s mask): sf[j] == mean squared difference over the pixel pairs that both exist, lag j*step" % case["masked"], scale=max(want, 1e-300), name="sf of a masked phase vs definition")


def sf_body(ctx, case):
    sc, _ = S()
    a, b, step, nb = case["a"], case["b"], case["step"], case["nb"]
    rows = np.arange(a, dtype=float)[:, None]
    cols = np.arange(b, dtype=float)[None, :]
    if case["kind"] == "ramp":
        phase = case["slope"] * rows + case["slope2"] * cols + 0.5
    elif case["kind"] == "quad":
        phase = case["slope"] * rows ** 2 / 8.0 + cols
    elif case["kind"] == "column_offsets":
        # integer-valued noise plus a huge tilt across the second axis: differences along the first axis are exact integers
        rng_ = gen.np_rng(case["seed"])
        phase = rng_.integers(-8, 9, size=(a, b)).astype(float) + 2.0 ** rng_.integers(14, 30) * cols
    elif case["kind"] == "counts":
        # quantised data in its native integer container (DM commands, detector counts, nm-quantised phase maps)
        rng_ = gen.np_rng(case["seed"])
        dt = ["int8", "uint8", "int16", "uint16", "int32"][case["seed"] % 5]
        hi = {"int8": 100, "uint8": 250, "int16": 30000, "uint16": 60000, "int32": 2 * 10**9}[dt]
        lo = 0 if dt.startswith("u") else -hi
        phase = rng_.integers(lo, hi + 1, size=(a, b)).astype(dt)
        ctx.classes["counts_" + dt] += 1
    else:
        phase = gen.np_rng(case["seed"]).normal(size=(a, b))
    exact = phase.astype(np.float64)                      # the numbers, whatever container they came in
    st_ = 1 if step is None else step
    ctx.case(case, nontrivial=(a != b) or st_ >= 2, classes=[case["kind"], "square" if a == b else "non_square", "step%d" % st_, "nb_default" if nb is None else "nb_given"] + (["large"] if a * b > 3000 else []))
    p0 = phase.copy()
    kw = {}
    if nb is not None:
        kw["nbOfPoint"] = nb
    if step is not None:
        kw["step"] = step
    # poison the allocator's free lists so that an uninitialised result cannot be zero by luck
    for n_ in range(1, 16):
        g = np.full(n_, 1.2345e131)
        del g
    # the lags are shifts along the FIRST axis: the requested number of points is honoured as far as such lags exist
    xm_expected = int(min(a / 4.0 if nb is None else nb, a / st_ - 1))
    g = np.full(max(xm_expected, 1), 1.2345e131)
    del g
    with np.errstate(all="ignore"):
        import warnings
        with warnings.catch_warnings():
            warnings.simplefilter("ignore")
            sf = sc.calculate_structure_function(phase, **kw)
    ctx.equal(phase, p0, "calculate_structure_function modified its input")
    ctx.require(sf.ndim == 1 and len(sf) == max(xm_expected, 0), "structure function of a %d x %d array (nbOfPoint=%r, step=%r) has %d points, expected min(nbOfPoint or shape[0]/4, shape[0]/step - 1) = %d" % (a, b, nb, step, len(sf), xm_expected))
    ctx.require(bool(np.all(np.isfinite(sf))), "structure function of a finite %d x %d array contains non-finite values (lags that do not exist along the first axis): %r" % (a, b, sf.tolist()[:8]))
    if len(sf) == 0:
        return
    ctx.require(sf[0] == 0, "structure function at lag 0 is %r, expected 0" % float(sf[0]))
    for j in range(1, len(sf)):
        lag = j * st_
        if lag >= a:
            ctx.classes["lag_beyond_first_axis_not_judged"] += 1
            continue
        want = float(np.mean((exact[:-lag, :] - exact[lag:, :]) ** 2))
        ctx.close(sf[j], want, 1e-12, "sf[j] == mean squared difference at lag j*step", scale=max(want, 1e-300), name="sf vs definition")
        if case["kind"] == "ramp":
            ctx.require(sf[j] == (case["slope"] * lag) ** 2, "ramp of slope %r: sf[%d] = %r, expected a^2 (j step)^2 = %r" % (case["slope"], j, float(sf[j]), (case["slope"] * lag) ** 2))
    if case.get("masked") and case["kind"] in ("noise", "ramp", "quad"):
        sf_masked(ctx, sc, exact, case, kw, st_)
    def again():
        with np.errstate(all="ignore"):
            import warnings
            with warnings.catch_warnings():
                warnings.simplefilter("ignore")
                return sc.calculate_structure_function(phase, **kw)
    ctx.fresh_result(again, sf, "calculate_structure_function")
    # the same phase in another memory layout (Fortran order, the transposed view of the transposed copy, a strided slice)
    wide = np.zeros((a, 2 * b), dtype=phase.dtype)
    wide[:, ::2] = phase
    for lay_name, lay in (("Fortran-ordered", np.asfortranarray(phase)), ("transposed-view", np.ascontiguousarray(phase.T).T), ("strided", wide[:, ::2])):
        with np.errstate(all="ignore"):
            import warnings
            with warnings.catch_warnings():
                warnings.simplefilter("ignore")
                sl = sc.calculate_structure_function(lay, **kw)
        # (sums run in memory order: equal to rounding, not bit for bit)
        ctx.require(sl.shape == sf.shape, "calculate_structure_function of a %s phase: %d points instead of %d" % (lay_name, len(sl), len(sf)))
        if len(sf):
            ctx.close(sl, sf, 1e-12, "calculate_structure_function of a %s phase == of the C-ordered phase with the same elements" % lay_name, scale=float(np.max(np.abs(sf))) or 1.0, name="memory layout")
    if case["kind"] == "counts":
        return
    # quadratic in amplitude
    k = case["k"]
    with np.errstate(all="ignore"):
        import warnings
        with warnings.catch_warnings():
            warnings.simplefilter("ignore")
            sfk = sc.calculate_structure_function(k * phase, **kw)
    ok = np.array([j * st_ < a for j in range(len(sf))])
    ctx.close(sfk[ok], (k * k) * sf[ok], 1e-12, "structure function quadratic in amplitude", scale=float(np.max(np.abs(sf[ok]))) * k * k or 1.0)


@st.composite
def tps_cases(draw):
    nf = draw(st.integers(2, 65))
    ns = draw(st.integers(1, 8))
    if draw(st.integers(0, 19)) == 0:
        # an ELT-sized sensor: more sub-apertures than any round block size, few frames
        nf, ns = draw(st.integers(2, 9)), draw(st.sampled_from([1025, 4095, 4097, 5000, 8193, 16385, 20000]))
    lead = tuple(draw(st.sampled_from([(), (), (2,), (1,), (2, 3)])))
    kind = draw(st.sampled_from(["noise", "noise", "sine", "dyadic", "int64", "int16", "float32"]))
    return {"nf": nf, "ns": ns, "lead": lead, "kind": kind, "seed": draw(st.integers(0, 2**32 - 1)), "q": draw(st.integers(0, 64)),
            "k": draw(gen.dyadic(-4, 4, 4)), "rate": draw(gen.logfloat(1.0, 5000.0)), "amp": draw(gen.logfloat(1e-3, 1e3))}


def tps_body(ctx, case):
    _, tp = S()
    nf, ns, lead = case["nf"], case["ns"], case["lead"]
    shape = lead + (nf, ns)
    rng = gen.np_rng(case["seed"])
    nb = nf // 2
    if case["kind"] == "sine":
        q = case["q"] % max(nb, 1)
        t = np.arange(nf)[:, None]
        data = case["amp"] * np.cos(2 * np.pi * q * t / nf + rng.uniform(0, 6.28, size=lead + (1, ns))) * np.ones(shape)
    elif case["kind"] == "dyadic":
        data = rng.integers(-64, 65, size=shape) / 16.0
    elif case["kind"] in ("int64", "int16"):
        data = rng.integers(-40, 41, size=shape).astype(case["kind"])          # raw detector counts are integers
    elif case["kind"] == "float32":
        data = rng.normal(size=shape).astype(np.float32)
    else:
        data = rng.normal(size=shape) * case["amp"]
    if ns > 1000 and data.dtype == np.float64:
        data = data * np.linspace(0.05, 3.0, ns)                    # signal level varies across the pupil
    ctx.case(case, nontrivial=nf % 2 == 1 or len(lead) > 0, classes=[case["kind"], "odd_frames" if nf % 2 else "even_frames", "lead%d" % len(lead)] + (["many_subaps"] if ns > 1000 else []))
    d0 = data.copy()
    mean_tps, err = tp.calc_slope_temporalps(data)
    ctx.equal(data, d0, "calc_slope_temporalps modified its input")
    ctx.require(mean_tps.shape == lead + (nb,) and err.shape == lead + (nb,), "temporal power spectrum shape %s / %s, expected %s" % (mean_tps.shape, err.shape, lead + (nb,)))
    # slow DFT along the frame axis (standard order, bins 0..nb-1)
    n = np.arange(nf)
    E = np.exp(-2j * np.pi * (np.outer(np.arange(nf), n) % nf) / nf)          # all bins
    F = np.einsum("kn,...ns->...ks", E, data.astype(complex))
    P = np.abs(F) ** 2
    want = P[..., :nb, :].mean(-1)
    want_err = P[..., :nb, :].std(-1) / math.sqrt(ns)
    sc = float(np.max(P)) or 1.0
    if case["kind"] == "float32":
        ctx.close(mean_tps, want, 1e-4, "temporal power spectrum (float32 data) == definition", scale=sc, name="tps vs definition (float32)")
        return
    ctx.close(mean_tps, want, 1e-10, "temporal power spectrum == mean over sub-apertures of |DFT along frames|^2", scale=sc, name="tps vs definition")
    ctx.close(err, want_err, 1e-9, "temporal power spectrum error == standard error over sub-apertures", scale=sc, name="tps error vs definition")
    ctx.fresh_result(lambda: tp.calc_slope_temporalps(data), (mean_tps, err), "calc_slope_temporalps")
    if case["kind"] == "counts":
        return
    # quadratic in amplitude
    k = case["k"]
    mk, ek = tp.calc_slope_temporalps(k * data.astype(np.float64))
    ctx.close(mk, k * k * mean_tps, 1e-10, "temporal power spectrum quadratic in amplitude", scale=sc * k * k or 1.0)
    # Parseval: sum over all bins of |F|^2 = n * sum |x|^2; returned bins + independently computed dropped bins
    total = nf * np.sum(data.astype(np.float64) ** 2, axis=-2).mean(-1)
    dropped = P[..., nb:, :].sum(-2).mean(-1)
    ctx.close(mean_tps.sum(-1) + dropped, total, 1e-10, "Parseval: returned bins + dropped bins == n sum x^2", scale=float(np.max(total)) or 1.0)
    if case["kind"] == "sine" and nb >= 1:
        q = case["q"] % nb
        ctx.require(bool(np.all(np.argmax(mean_tps, axis=-1) == q)), "pure sinusoid at bin %d does not peak at bin %d (peaks %r)" % (q, q, np.argmax(mean_tps, axis=-1).tolist()))
    # frequency axis
    ax = tp.get_tps_time_axis(case["rate"], nf)
    ctx.close(ax, np.arange(nb) * case["rate"] / nf, 1e-12, "frequency axis == k frame_rate / n_frames", scale=case["rate"])
    ctx.fresh_result(lambda: tp.get_tps_time_axis(case["rate"], nf), ax, "get_tps_time_axis")


# ------------------------------------------------------------------ estimator on generated screens: exact ensemble expectation

@st.composite
def ens_cases(draw):
    N = 2 * draw(st.integers(4, 8))
    delta = draw(gen.logfloat(0.02, 0.5))
    return {"N": N, "delta": delta, "r0": draw(gen.logfloat(0.05, 1.0)), "L0": N * delta * draw(gen.logfloat(0.5, 10.0)), "sh": draw(st.booleans()),
            "step": draw(st.integers(1, 2))}


def ens_body(ctx, p):
    """The estimator is quadratic in the screen and the screen is linear in its unit-normal draws (phi = L g), so
    E[sf_j] = trace(Q_j) = sum_k sf_j(L e_k): the exact ensemble expectation is obtained by applying the *real*
    estimator to the unit-draw screens.  It must equal the lag average of the exact ensemble structure function
    L L^T gives, and follow the analytic von Karman curve within the FFT-screen deficit."""
    from . import c07
    from ..oracles import vk
    sc, _ = S()
    N, delta, r0, L0, step = p["N"], p["delta"], p["r0"], p["L0"], p["step"]
    ctx.case(p, nontrivial=True, classes=["sub_harmonic" if p["sh"] else "plain", "step%d" % step])
    import warnings
    with warnings.catch_warnings():
        warnings.simplefilter("ignore")
        L, _, _ = c07.probe(N, delta, r0, L0, delta / 100.0, sh=p["sh"])
    nlag = int(min(N / 4.0, N / step - 1))
    acc = np.zeros(nlag)
    for k in range(L.shape[1]):
        acc += sc.calculate_structure_function(L[:, k].reshape(N, N), step=step)
    Dens = c07.structure(L @ L.T).reshape(N, N, N, N)
    want = np.zeros(nlag)
    for j in range(1, nlag):
        l = j * step
        want[j] = np.mean([Dens[i, c, i + l, c] for i in range(N - l) for c in range(N)])
    ctx.close(acc, want, 1e-9, "ensemble expectation of the estimator == lag average of the exact ensemble structure function", scale=float(np.max(want)) or 1.0, name="estimator expectation")
    lags = np.arange(1, nlag) * step * delta
    ana = np.asarray(vk.D(lags, r0, L0)) * (0.023 / vk.C_PSD)
    ratio = acc[1:] / ana
    ctx.note("estimator_over_analytic_min_max", [float(ratio.min()), float(ratio.max())] if len(ratio) else [])
    if len(ratio):
        ctx.require(bool(np.all(ratio <= 1.02)), "estimated structure function of generated screens exceeds the analytic von Karman one: ratio %r" % ratio.tolist())
        ctx.require(bool(np.all(ratio >= (0.5 if p["sh"] else 0.15))), "estimated structure function of generated screens is far below the analytic one: ratio %r (N=%d, L0/width=%.3g, sub-harmonics=%r)" % (ratio.tolist(), N, L0 / (N * delta), p["sh"]))
        ctx.require(bool(np.all(np.diff(acc[1:]) > 0)), "estimated structure function of generated screens is not increasing over the first lags")


def self_test():
    dft.self_test()


LAWS = [
    given_law("structure_function", sf_cases(), sf_body, {"quick": 800, "thorough": 12500}, shards={"quick": 3, "thorough": 16}),
    given_law("temporal_ps", tps_cases(), tps_body, {"quick": 600, "thorough": 10000}, shards={"quick": 3, "thorough": 16}),
    given_law("screens_ensemble", ens_cases(), ens_body, {"quick": 8, "thorough": 80}, shards={"quick": 4, "thorough": 16}),
]
