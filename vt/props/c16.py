"""C16 - binning, zooming and radial reductions preserve image content."""
import math

import numpy as np
from hypothesis import strategies as st

from ..core import given_law
from .. import gen

RULE = ("binImgs: shapes (..., a*n, b*n) with 0-2 leading axes, n in 1..6, float and wide-int dtypes vs reshape-and-sum. "
        "zoom/zoom_rbs: square and non-square arrays with sides order+1 .. order+16 (smallest sides most often), orders 1,3,5, targets as int, (k,k) and (kx,ky); same-size identity, node "
        "interpolation for targets q(n-1)+1, exact reproduction of row/column-anisotropic bivariate polynomials of degree "
        "<= order at linspace(0,n-1,k), complex = real + i imag, output shape = requested shape, both entry points agree. "
        "azimuthal_average: constant, bounds, own ring average (even sizes). encircled_energy: sizes 3..65 odd and even, random / "
        "Gaussian / off-centre single-pixel non-negative images, fractions in (0,1): starts at 0, monotone, <= 1, both "
        "return modes consistent, reported diameter brackets the crossing, Gaussian trend. Non-trivial: binning n>=2 on a "
        "stack; non-square target or order 5; off-centre energy. Distinct = canonical JSON."
        " Also: bin factors one ulp off an integer and numpy.float32; zoom of integer-typed counts (a quadratic >= 0 at the nodes and negative between two of them; arbitrary counts vs float64)."
        " Encircled energy on odd and even sides, and on float32 / float16 copies of the image judged at the precision of the type."
        " Big-endian integer / float frames in the binning law.")
ASSUMPTIONS = ["zoom output[i, j] is the spline evaluated at (linspace(0,n-1,kx)[i], linspace(0,n-1,ky)[j]) - first requested size = first axis",
               "binning of integer / boolean frames is judged against the sums as numbers (int64), not modulo the container's range",
               "encircled-energy Gaussian comparison is a trend check with bound 0.12/sigma"]


def I():
    from aotools import interpolation
    return interpolation


def P():
    from aotools.image_processing import psf
    return psf


# ------------------------------------------------------------------ binning

@st.composite
def bin_cases(draw):
    n = draw(st.integers(1, 6))
    a, b = draw(st.integers(1, 5)), draw(st.integers(1, 5))
    lead = tuple(draw(st.sampled_from([(), (), (1,), (3,), (2, 2)])))
    if draw(st.integers(0, 3)) == 0:
        # heavy binning of bright or dark narrow-integer frames (n up to 40: a block of n*n saturated 8-bit pixels needs
        # up to 19 bits): the block sums are the sums as numbers for every bin factor, not only for the small ones
        n = draw(st.integers(7, 40))
        a, b = draw(st.integers(1, 2)), draw(st.integers(1, 2))
        lead = tuple(draw(st.sampled_from([(), (2,)])))
        dt = draw(st.sampled_from(["uint8", "int8", "uint16", "int16", "bool", "int32"]))
        info = np.iinfo(dt) if dt != "bool" else None
        side = draw(st.sampled_from(["high", "high", "low"]))
        shape = lead + (a * n, b * n)
        jit = draw(gen.int_array(shape, 0, 7, dtype="int64"))
        if dt == "bool":
            data = jit < 7
        elif side == "high":
            data = (info.max - jit).astype(dt)
        else:
            data = (info.min + jit).astype(dt)
        return {"data": data, "n": n, "n_as": draw(st.sampled_from(["int", "float", "np"]))}
    shape = lead + (a * n, b * n)
    dt = draw(st.sampled_from(["float64", "float32", "int64", "int32", "complex128", "uint8", "uint16", "int16", "bool", ">i2", ">u2", ">i4", ">f4"]))
    if dt in (">i2", ">u2", ">i4", ">f4"):
        # what a FITS reader hands out: big-endian containers (BITPIX 16 / 32 / -32), counts up to the full range of the type
        hi = {">i2": 32767, ">u2": 65535, ">i4": 2**31 - 1, ">f4": 4096}[dt]
        data = draw(gen.int_array(shape, 0, 1, dtype="int64")) * (hi - 7) + draw(gen.int_array(shape, 0, 7, dtype="int64"))
        data = data.astype(dt)
    elif dt == "uint8":
        data = draw(gen.int_array(shape, 0, 255, dtype=dt))                # raw 8-bit frames
    elif dt == "uint16":
        data = draw(gen.int_array(shape, 0, 4095, dtype=dt))               # 12-bit data in a 16-bit container
    elif dt == "int16":
        data = draw(gen.int_array(shape, 0, 4095, dtype=dt))
    elif dt == "bool":
        data = draw(gen.int_array(shape, 0, 1, dtype="int64")).astype(bool)  # a pupil mask: binning counts the lit pixels
    elif dt.startswith("int"):
        data = draw(gen.int_array(shape, -1000, 1000, dtype=dt))
    elif dt == "complex128":
        data = draw(gen.complex_array(shape, kind="dyadic"))
    else:
        data = draw(gen.float_array(shape, kind="dyadic", dtype=dt))
    return {"data": data, "n": n, "n_as": draw(st.sampled_from(["int", "float", "np", "float_below", "float_above", "float32"]))}


def bin_body(ctx, case):
    data, n = case["data"], case["n"]
    # a bin factor computed as a ratio of two lengths (0.3 / 0.1 = 2.9999999999999996) is the integer next to it
    nn = {"int": n, "float": float(n), "np": np.int64(n), "float_below": float(np.nextafter(float(n), 0.0)), "float_above": float(np.nextafter(float(n), np.inf)), "float32": np.float32(n)}[case["n_as"]]
    ctx.case(case, nontrivial=n >= 2 and data.ndim >= 3, classes=["n%d" % n if n <= 6 else "n7to40", "rank%d" % data.ndim, str(data.dtype)])
    d0 = data.copy()
    out = I().binImgs(data, nn)
    ctx.equal(data, d0, "binImgs modified its input")
    a, b = data.shape[-2] // n, data.shape[-1] // n
    wide = data.astype(np.int64) if data.dtype.kind in "uib" else data      # the sums as numbers, not modulo the container's range
    want = wide.reshape(data.shape[:-2] + (a, n, b, n)).sum(axis=(-3, -1))
    ctx.require(out.shape == want.shape, "binImgs shape %s, expected %s" % (out.shape, want.shape))
    if data.dtype.kind in "uib":
        ctx.equal(np.asarray(out).astype(np.int64), want, "binImgs(%s image) == n x n block sums" % data.dtype)
        ctx.equal(np.asarray(out).astype(np.int64).sum(axis=(-2, -1)), wide.sum(axis=(-2, -1)), "binImgs(%s image) preserves total flux per image" % data.dtype)
    else:
        ctx.equal(out, want.astype(out.dtype), "binImgs == n x n block sums")       # dyadic content: sums are exact
        ctx.equal(out.sum(axis=(-2, -1)), data.sum(axis=(-2, -1)).astype(out.dtype), "binImgs preserves total flux per image")


# ------------------------------------------------------------------ zoom

@st.composite
def zoom_cases(draw):
    order = draw(st.sampled_from([1, 3, 5]))
    # every side the spline accepts: at least order + 1 samples (the smallest sides drawn most often), non-square too
    off = st.sampled_from([0, 0, 0, 1, 1, 2, 3, 4, 5, 6, 7, 8, 10, 12, 15])
    n = order + 1 + draw(off)
    ny = n if draw(st.booleans()) else order + 1 + draw(off)
    tk = draw(st.sampled_from(["int", "pair_eq", "pair", "same", "nodes"]))
    if tk == "int":
        target = draw(st.integers(2, 40))
    elif tk == "pair_eq":
        k = draw(st.integers(2, 40))
        target = (k, k)
    elif tk == "pair":
        target = (draw(st.integers(2, 40)), draw(st.integers(2, 40)))
    elif tk == "same":
        target = draw(st.sampled_from([n, (n, n)])) if ny == n else (n, ny)
    else:
        q = draw(st.integers(2, 3))
        target = q * (n - 1) + 1 if ny == n else (q * (n - 1) + 1, q * (ny - 1) + 1)
    # anisotropic bivariate polynomial of degree <= order in each variable (coefficients dyadic)
    deg = draw(st.sampled_from([order, order] + list(range(order + 1))))
    cx = [draw(gen.dyadic(-2, 2, 4)) for _ in range(deg + 1)]
    cy = [draw(gen.dyadic(-2, 2, 4)) for _ in range(deg + 1)]
    cxy = draw(gen.dyadic(-1, 1, 4))
    return {"n": n, "ny": ny, "order": order, "target": target, "tk": tk, "cx": cx, "cy": cy, "cxy": cxy,
            "noise": draw(gen.float_array((n, ny), kind="dense")), "entry": draw(st.sampled_from(["zoom", "zoom_rbs"])),
            "complex": draw(st.booleans()), "single": draw(st.sampled_from([False, False, True])),
            "cdtype": draw(st.sampled_from(["native", "native", "native", "byteswapped", "clongdouble"]))}


def poly(case, X, Y):
    n = case["n"]
    x, y = X / (n - 1.0), Y / (case.get("ny", n) - 1.0)
    p = sum(c * x ** k for k, c in enumerate(case["cx"])) + 2.0 * sum(c * y ** k for k, c in enumerate(case["cy"])) + case["cxy"] * x * y ** min(1, len(case["cy"]) - 1 if case["order"] > 1 else 1)
    return p


def zoom_body(ctx, case):
    it = I()
    n, order, target = case["n"], case["order"], case["target"]
    ny = case.get("ny", n)
    f = getattr(it, case["entry"])
    if isinstance(target, tuple):
        kx, ky = target
    else:
        kx = ky = target
    ctx.case(case, nontrivial=(kx != ky) or order == 5, classes=[case["entry"], "order%d" % order, "side == order+1" if min(n, ny) == order + 1 else "side > order+1", "square_input" if n == ny else "non_square_input", "target_" + case["tk"], "complex" if case["complex"] else "real", "single_precision" if case.get("single") else "double_precision"])
    gx, gy = np.arange(n, dtype=float), np.arange(ny, dtype=float)
    X, Y = np.meshgrid(gx, gy, indexing="ij")            # X = first axis coordinate
    arr = poly(case, X, Y)
    if case["complex"]:
        arr = arr + 1j * poly(dict(case, cx=case["cy"], cy=case["cx"]), X, Y)
    single = case.get("single", False)
    if single:
        arr = arr.astype(np.complex64 if case["complex"] else np.float32)     # dyadic coefficients: exactly representable
    if case["complex"] and case.get("cdtype", "native") != "native":
        # the same complex numbers in a non-native byte order (memory-mapped / big-endian files) or in extended precision
        arr = arr.astype(arr.dtype.newbyteorder()) if case["cdtype"] == "byteswapped" else arr.astype(np.clongdouble)
        ctx.classes["complex_" + case["cdtype"]] += 1
    tolp = 1e-9 if not single else 2e-5
    a0 = arr.copy()
    out = f(arr, target, order)
    ctx.equal(arr, a0, "%s modified its input" % case["entry"])
    ctx.require(out.shape == (kx, ky), "%s(target=%r) returned shape %s, expected %s" % (case["entry"], target, out.shape, (kx, ky)))
    nx_, ny_ = np.linspace(0, n - 1, kx), np.linspace(0, ny - 1, ky)
    XN, YN = np.meshgrid(nx_, ny_, indexing="ij")
    want = poly(case, XN, YN)
    if case["complex"]:
        want = want + 1j * poly(dict(case, cx=case["cy"], cy=case["cx"]), XN, YN)
    sc = float(np.max(np.abs(arr))) or 1.0
    ctx.require(np.iscomplexobj(out) == bool(case["complex"]), "%s of %s data returned dtype %s" % (case["entry"], arr.dtype, out.dtype))
    ctx.close(out, want, tolp, "%s reproduces a degree<=order polynomial at the new sample positions" % case["entry"], scale=sc, name="polynomial reproduction (%s)" % ("single" if single else "double"))
    # arbitrary data: identity / node interpolation / complex = real + i imag / entry points agree
    noise = case["noise"]
    data = noise + 1j * noise[::-1, ::-1] if case["complex"] else noise
    if single:
        data = data.astype(np.complex64 if case["complex"] else np.float32)
    z = f(data, target, order)
    ctx.require(z.shape == (kx, ky), "%s shape on arbitrary data" % case["entry"])
    if kx == n and ky == ny:
        ctx.close(z, data, 1e-10 if not single else 1e-6, "%s to the same size returns the input" % case["entry"], scale=1.0, name="same size identity")
    if (kx - 1) % (n - 1) == 0 and (ky - 1) % (ny - 1) == 0:
        qx, qy = (kx - 1) // (n - 1), (ky - 1) // (ny - 1)
        ctx.close(z[::qx, ::qy], data, 1e-10 if not single else 1e-6, "%s passes through the original samples when the new grid contains the old nodes" % case["entry"], scale=1.0, name="node interpolation")
    if case["complex"]:
        ctx.close(z, f(data.real.copy(), target, order) + 1j * f(data.imag.copy(), target, order), 1e-12, "%s(%s) == zoom(real) + i zoom(imag)" % (case["entry"], data.dtype), scale=1.0, name="complex = real + i imag")
    other = it.zoom_rbs if case["entry"] == "zoom" else it.zoom
    ctx.close(other(data, target, order), z, 1e-9, "zoom and zoom_rbs agree", scale=1.0)
    # anisotropy: values must vary along the axis they were sampled on (ramp along first axis only)
    ramp = X.copy()
    zr = f(ramp, target, order)
    ctx.close(zr, XN, 1e-9, "%s of a first-axis ramp is the first-axis ramp on the new grid" % case["entry"], scale=float(n))
    rampy = Y.copy()
    ctx.close(f(rampy, target, order), YN, 1e-9, "%s of a second-axis ramp is the second-axis ramp on the new grid" % case["entry"], scale=float(ny))
    # detector counts in their native integer containers are numbers like any others: a quadratic that is >= 0 at every
    # node (so it fits an unsigned type) and negative between two of them is still reproduced exactly, and arbitrary counts
    # give what the same counts give as float64
    k1, k2 = (n - 1) // 2, (ny - 1) // 2
    quad = lambda A, B: (A - k1) * (A - k1 - 1) + (B - k2) * (B - k2 - 1)
    qi = quad(X, Y)
    for dt in (("uint8", "uint16") if qi.max() <= 255 else ("uint16",)) + ("int32",):
        if order >= 3:
            ctx.close(f(qi.astype(dt), target, order), quad(XN, YN), 1e-9, "%s reproduces a quadratic given as %s counts (non-negative at the nodes, negative between two of them)" % (case["entry"], dt), scale=float(qi.max()) or 1.0, name="integer-typed polynomial")
        counts = np.floor(np.abs(noise) * 97).astype(np.int64) % 200
        ctx.close(f(counts.astype(dt), target, order), f(counts.astype(np.float64), target, order), 1e-12, "%s(%s counts) == %s(the same counts as float64)" % (case["entry"], dt, case["entry"]), scale=200.0, name="zoom storage type")
    ctx.classes["integer_containers"] += 1


def zoom_badorder_body(ctx, case):
    it = I()
    ctx.case(case, nontrivial=True)
    try:
        it.zoom(np.zeros((6, 6)), 8, case["order"])
    except ValueError:
        return
    ctx.require(False, "zoom(order=%r) did not raise the documented ValueError" % case["order"])


# ------------------------------------------------------------------ azimuthal average

@st.composite
def azi_cases(draw):
    n = draw(st.integers(2, 40))
    kind = draw(st.sampled_from(["const", "dense", "sparse", "dyadic", "hdr"]))
    if kind == "hdr":
        # a very bright core on a faint non-zero background (a saturated PSF)
        bg = draw(gen.float_array((n, n), kind="dense", lo=0.5, hi=1.5))
        bg[n // 2, n // 2] = draw(st.sampled_from([1e12, 1e15, 1e18]))
        bg[(n - 1) // 2, (n - 1) // 2] += draw(st.sampled_from([0.0, 1e16]))
        return {"data": bg, "kind": kind}
    return {"data": draw(gen.float_array((n, n), kind=kind, lo=-3, hi=3)), "kind": kind}


def azi_body(ctx, case):
    data = case["data"]
    n = data.shape[0]
    ctx.case(case, nontrivial=case["kind"] != "const" and n >= 4, classes=[case["kind"], "even" if n % 2 == 0 else "odd"])
    d0 = data.copy()
    out = P().azimuthal_average(data)
    ctx.equal(data, d0, "azimuthal_average modified its input")
    ctx.require(out.shape == (n // 2,), "azimuthal_average length %s" % (out.shape,))
    lo, hi = float(data.min()), float(data.max())
    ctx.require(bool(np.all(out >= lo - 1e-12 * (1 + abs(lo))) and np.all(out <= hi + 1e-12 * (1 + abs(hi)))), "azimuthal average outside [min, max] of the image")
    if case["kind"] == "const":
        ctx.close(out, np.full(n // 2, data.flat[0]), 1e-12, "azimuthal average of a constant image", scale=abs(float(data.flat[0])) or 1.0)
    if n % 2 == 0:
        c = np.arange(n) + 0.5 - n / 2.0
        d2 = c[None, :] ** 2 + c[:, None] ** 2          # half-integer squares: exact
        want = np.array([data[(d2 > i * i) & (d2 <= (i + 1) ** 2)].mean() for i in range(n // 2)])
        ctx.require(bool(np.all(np.abs(out - want) <= 1e-12 * np.maximum(np.abs(want), 1e-300) + (0 if case["kind"] == "hdr" else 1e-12 * max(abs(lo), abs(hi))))),
                    "azimuthal average != mean over the ring i < r <= i+1 of pixel centres: %r vs %r" % (out.tolist()[:6], want.tolist()[:6]))


# ------------------------------------------------------------------ encircled energy

@st.composite
def ee_cases(draw):
    n = draw(st.one_of(st.integers(2, 32).map(lambda k: 2 * k), st.integers(3, 65)))
    kind = draw(st.sampled_from(["rand", "gauss", "pixel", "sparse"]))
    if kind == "rand":
        data = draw(gen.float_array((n, n), kind="dense", lo=0, hi=1))
    elif kind == "sparse":
        data = np.abs(draw(gen.float_array((n, n), kind="sparse", lo=0.1, hi=1)))
    elif kind == "pixel":
        data = np.zeros((n, n))
        data[draw(st.integers(0, n - 1)), draw(st.integers(0, n - 1))] = draw(st.floats(0.1, 10))
    else:
        sig = draw(st.floats(1.0, max(1.0, n / 8.0)))
        c = np.arange(n) + 0.5 - n / 2.0
        data = np.exp(-(c[None, :] ** 2 + c[:, None] ** 2) / (2 * sig ** 2))
    return {"data": data, "kind": kind, "fraction": draw(st.floats(0.01, 0.99)), "scale": draw(gen.logfloat(1e-3, 1e3))}


def ee_body(ctx, case):
    data, f = case["data"], case["fraction"]
    n = data.shape[0]
    if not data.sum() > 0:
        ctx.reject("zero_image")
        return
    off = case["kind"] in ("pixel", "sparse")
    ctx.case(case, nontrivial=bool(off or case["kind"] == "rand"), classes=[case["kind"], "n%d" % (n // 16 * 16)])
    d0 = data.copy()
    xi, yi = P().encircled_energy(data, fraction=f, eeDiameter=False)
    d = P().encircled_energy(data, fraction=f)
    ctx.equal(data, d0, "encircled_energy modified its input")
    ctx.require(len(xi) == len(yi) and len(xi) >= 2, "encircled_energy curve lengths")
    ctx.require(yi[0] == 0 and xi[0] == 0, "encircled-energy curve does not start at (0, 0): (%r, %r)" % (xi[0], yi[0]))
    ctx.require(bool(np.all(np.diff(yi) >= -1e-12)), "encircled-energy curve decreases")
    ctx.require(bool(np.all(yi <= 1 + 1e-12) and np.all(yi >= 0)), "encircled-energy curve outside [0, 1]")
    ctx.require(bool(np.all(np.diff(xi) > 0)), "encircled-energy abscissa not increasing")
    ctx.require(isinstance(d, float), "encircled_energy diameter is not a float")
    # the reported diameter brackets the crossing (or is the end of the sampled range if there is none)
    below = np.nonzero(yi < f)[0]
    above = np.nonzero(yi > f)[0]
    lo = xi[below[-1]] if len(below) else xi[0]
    hi = xi[above[0]] if len(above) else xi[-1]
    if not len(above) and not np.any(yi == f):
        ctx.classes["curve_never_reaches_fraction_in_sampled_range"] += 1      # the statement is only about the crossing
    else:
        ctx.require(lo - 1e-12 <= d <= hi + 1e-12, "reported diameter %r is not one of the abscissae bracketing the crossing of fraction %r: [%r, %r]" % (d, f, lo, hi))
    # independent of the returned curve: the smallest centred pixel disc holding the fraction, as an area-equivalent diameter
    # (smooth images only, where the 20-node interpolation of the code is accurate to a fraction of a pixel)
    if case["kind"] in ("rand", "gauss"):
        cc = np.arange(n) + 0.5 - n / 2.0
        r2 = (cc[None, :] ** 2 + cc[:, None] ** 2).ravel()
        order = np.argsort(r2, kind="stable")
        cum = np.cumsum(data.ravel()[order]) / float(data.sum())
        # complete rings only: a disc must contain every pixel at the same distance
        r2s = r2[order]
        last_of_ring = np.nonzero(np.append(np.diff(r2s) > 0, True))[0]
        ring = last_of_ring[np.searchsorted(cum[last_of_ring], f)] if cum[last_of_ring][-1] >= f else None
        d_true = math.sqrt(4.0 * (ring + 1) / math.pi) if ring is not None else 0.0
        # frames of at least 16 px and discs of at least 6 px: below that the step-like true curve and the code's linear
        # interpolation from (0, 0) legitimately differ by more than the tolerance
        if ring is not None and n >= 16 and d_true >= 6.0 and math.sqrt(r2s[ring]) <= n / 2.0 - 1.0:
            ctx.classes["diameter_oracle_applied" + ("_beyond_half_frame" if d_true > n / 2.0 else "")] += 1
            ctx.residual("reported EE diameter vs smallest disc holding the fraction [px]", abs(d - d_true), 1.5 + 0.02 * n)
            ctx.require(abs(d - d_true) <= 1.5 + 0.02 * n, "encircled_energy(fraction=%.3f) reports diameter %.2f px; the smallest centred disc holding that fraction of the energy has (area-equivalent) diameter %.2f px, inside the %d px frame" % (f, d, d_true, n))
    # the same image in the narrower float types detectors and FITS files deliver, judged at the precision of that type
    # (every pixel is a finite number of the type; that their SUM is not representable in it is the function's business)
    for dt, amp, tol in (("float32", 1.0, 1e-6), ("float16", 3000.0 / float(data.max()), 4e-3)):
        narrow = (data * amp).astype(dt)
        if not narrow.sum(dtype=np.float64) > 0:
            continue
        with np.errstate(all="ignore"):
            xn, yn = P().encircled_energy(narrow, fraction=f, eeDiameter=False)
            dn = P().encircled_energy(narrow, fraction=f)
        xw, yw = P().encircled_energy(narrow.astype(np.float64), fraction=f, eeDiameter=False)
        ctx.require(bool(np.all(yn <= 1 + tol)), "encircled-energy curve of a %s image exceeds 1: max = 1 + %.3g" % (dt, float(np.max(yn)) - 1))
        ctx.close(yn, yw, tol, "encircled-energy curve of a %s image == curve of the same numbers as float64 (to %s precision)" % (dt, dt), scale=1.0, name="EE storage type " + dt)
        step = float(xw[1] - xw[0])
        # (the diameter is one of the curve's abscissae: a difference of the curves at rounding level can move it by one sample)
        dw = P().encircled_energy(narrow.astype(np.float64), fraction=f)
        ctx.require(abs(dn - dw) <= step * 1.001 + 1e-12, "encircled-energy diameter of a %s image is %.3f px, of the same numbers as float64 %.3f px" % (dt, dn, dw))
    # normalised curve: invariant under multiplication of the image by a positive constant
    for k in (case.get("scale", 3.0), 1.0 / 1024):
        xs, ys = P().encircled_energy(data * k, fraction=f, eeDiameter=False)
        ctx.close(ys, yi, 1e-12, "encircled-energy curve invariant under scaling of the image", scale=1.0)
    # default centre is the array middle: the curve is invariant under the symmetries of the square
    for name, g in (("flipud", np.flipud), ("fliplr", np.fliplr), ("transpose", np.transpose)):
        xs, ys = P().encircled_energy(np.ascontiguousarray(g(data)), fraction=f, eeDiameter=False)
        ctx.close(ys, yi, 1e-12, "encircled-energy curve invariant under %s (default centre = array middle)" % name, scale=1.0)
    # explicit centre (x = column, y = row, corner origin) placed on the single bright pixel: all energy at once
    # explicit centres (integer, pixel-centred half-integer, generic): the curve still starts at 0, never decreases, stays <= 1
    rr_ = gen.np_rng(int(case.get("scale", 1.0) * 1e6) % (2**31))
    for cen in ([n // 2, n // 2], [n // 2 + 0.5, n // 2 - 0.5], [float(rr_.integers(0, n)) + 0.5, float(rr_.integers(0, n)) + 0.5], [float(rr_.uniform(0, n)), float(rr_.uniform(0, n))]):
        xs, ys = P().encircled_energy(data, fraction=f, center=list(cen), eeDiameter=False)
        ctx.require(ys[0] == 0 and xs[0] == 0, "encircled-energy curve with center=%r does not start at (0, 0): starts at (%r, %r)" % (cen, xs[0], ys[0]))
        ctx.require(bool(np.all(np.diff(ys) >= -1e-12) and np.all(ys <= 1 + 1e-12)), "encircled-energy curve with center=%r decreases or exceeds 1" % (cen,))
        dd = P().encircled_energy(data, fraction=f, center=list(cen))
        below_, above_ = np.nonzero(ys < f)[0], np.nonzero(ys > f)[0]
        if len(above_) or np.any(ys == f):
            lo_ = xs[below_[-1]] if len(below_) else xs[0]
            hi_ = xs[above_[0]] if len(above_) else xs[-1]
            ctx.require(lo_ - 1e-12 <= dd <= hi_ + 1e-12, "encircled energy with center=%r: reported diameter %r does not bracket the crossing [%r, %r]" % (cen, dd, lo_, hi_))
    if case["kind"] == "pixel":
        r, c = [int(v) for v in np.argwhere(data > 0)[0]]
        xs, ys = P().encircled_energy(data, fraction=f, center=[c + 0.5, r + 0.5], eeDiameter=False)
        ctx.require(bool(np.all(ys[xs >= 1.1284] >= 1 - 1e-12)), "encircled energy centred on the single bright pixel (row %d, col %d) is not complete at diameter 1.13" % (r, c))
    if case["kind"] == "gauss":
        # sigma recovered from the image (second moment along the centre line is not needed: parametrised by construction)
        c = np.arange(n) + 0.5 - n / 2.0
        row = data[n // 2]
        sig = math.sqrt(-((c[n // 2 + 1]) ** 2 - (c[n // 2]) ** 2) / (2 * math.log(row[n // 2 + 1] / row[n // 2])))
        if 2.0 <= sig <= n / 8.0:
            ana = 1 - np.exp(-xi ** 2 / (8 * sig ** 2))
            err = float(np.max(np.abs(yi - ana)))
            ctx.residual("gaussian_ee_times_sigma", err * sig, 0.12)
            ctx.require(err <= 0.12 / sig, "Gaussian encircled energy differs from 1-exp(-d^2/8 sigma^2) by %.3g > 0.12/sigma (sigma=%.3g)" % (err, sig))


LAWS = [
    given_law("binning", bin_cases(), bin_body, {"quick": 600, "thorough": 10000}, shards={"quick": 3, "thorough": 16}),
    given_law("zoom", zoom_cases(), zoom_body, {"quick": 400, "thorough": 6250}, shards={"quick": 3, "thorough": 16}),
    given_law("zoom_bad_order", st.fixed_dictionaries({"order": st.sampled_from([0, 2, 4, 6, -1])}), zoom_badorder_body, {"quick": 10, "thorough": 10}, shards={"quick": 1, "thorough": 1}),
    given_law("azimuthal", azi_cases(), azi_body, {"quick": 400, "thorough": 6250}, shards={"quick": 3, "thorough": 16}),
    given_law("encircled", ee_cases(), ee_body, {"quick": 300, "thorough": 5000}, shards={"quick": 3, "thorough": 16}),
]
