"""Call one registry function of C20 in THIS (fresh) process and print a digest of its result.
usage: python -m vt.isolated_call <name> <variant> <seed>"""
import hashlib
import json
import os
import sys


def digest(o):
    import numpy as np
    h = hashlib.sha256()

    def feed(x):
        if isinstance(x, np.ndarray):
            h.update(("nd|%s|%s|" % (x.dtype, x.shape)).encode())
            h.update(np.ascontiguousarray(x).tobytes())
        elif isinstance(x, (list, tuple)):
            h.update(("seq%d|" % len(x)).encode())
            for y in x:
                feed(y)
        elif isinstance(x, dict):
            h.update(("dict%d|" % len(x)).encode())
            for k in sorted(x, key=str):
                h.update(str(k).encode())
                feed(x[k])
        elif isinstance(x, (float, np.floating)):
            h.update(("f|" + repr(float(x))).encode())
        elif isinstance(x, (complex, np.complexfloating)):
            h.update(("c|" + repr(complex(x))).encode())
        elif isinstance(x, (int, np.integer, bool, np.bool_, str)) or x is None:
            h.update(("v|" + repr(x)).encode())
        else:
            h.update(("o|" + type(x).__name__).encode())
    feed(o)
    return h.hexdigest()[:32]


def main():
    repo = os.path.abspath(os.environ.get("VERIF_REPO", "/repo"))
    sys.path.insert(0, repo)
    import numpy as np
    from vt.props import c20
    name, variant, seed = sys.argv[1], sys.argv[2], int(sys.argv[3])
    R, _ = c20.REG()
    fn, builder, _ = R[name]
    args, kwargs = builder(c20.A(seed, variant))
    np.random.seed(seed % (2**32))
    r = c20.quiet(c20.call, name, fn, args, kwargs)
    json.dump({"digest": digest(r)}, sys.stdout)


if __name__ == "__main__":
    main()
