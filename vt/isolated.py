"""Run a sequence of seeded-screen operations in THIS (fresh) process and print digests.

stdin: JSON list of {"d": descriptor, "rows": k}; stdout: JSON list (one per op) of hex digests of the screen after
0..k added rows.  Used by C06's order-independence law: hidden module-level state can only be exposed by comparing
a descriptor's trajectory computed alone with the one computed after other instances existed, in pristine processes."""
import hashlib
import json
import os
import sys
import warnings


def main():
    repo = os.path.abspath(os.environ.get("VERIF_REPO", "/repo"))
    sys.path.insert(0, repo)
    import numpy as np
    warnings.simplefilter("ignore")
    from aotools.turbulence import phasescreen, infinitephasescreen as ips
    ops = json.load(sys.stdin)
    out = []
    for op in ops:
        d, k = op["d"], op["rows"]
        dig = []
        h = lambda a: hashlib.sha256(np.ascontiguousarray(a).tobytes()).hexdigest()[:24]
        if d["kind"] == "ft":
            dig.append(h(phasescreen.ft_phase_screen(d["r0"], d["N"], d["ps"], d["L0"], d["l0"], seed=d["seed"])))
        elif d["kind"] == "ft_sh":
            dig.append(h(phasescreen.ft_sh_phase_screen(d["r0"], d["N"], d["ps"], d["L0"], d["l0"], seed=d["seed"])))
        else:
            if d["kind"] == "vk":
                o = ips.PhaseScreenVonKarman(d["N"], d["ps"], d["r0"], d["L0"], random_seed=d["seed"], n_columns=d["ncol"])
            else:
                o = ips.PhaseScreenKolmogorov(d["N"], d["ps"], d["r0"], d["L0"], random_seed=d["seed"], stencil_length_factor=d["factor"])
            dig.append(h(o.scrn))
            for _ in range(k):
                o.add_row()
                dig.append(h(o.scrn))
        out.append(dig)
    json.dump(out, sys.stdout)


if __name__ == "__main__":
    main()
