"""Shared Hypothesis strategies.  Every strategy yields plain JSON-able values (numbers, lists,
dicts, numpy arrays) so that a failing case can be written to a replay file verbatim."""
import math

import numpy as np
from hypothesis import strategies as st


def dyadic(lo, hi, den=8):
    """Multiples of 1/den in [lo, hi] (exactly representable; products of two are exact)."""
    return st.integers(int(math.ceil(lo * den)), int(math.floor(hi * den))).map(lambda k: k / den)


def logfloat(lo, hi):
    """Log-uniform float in [lo, hi]."""
    a, b = math.log(lo), math.log(hi)
    return st.floats(a, b, allow_nan=False).map(lambda t: min(hi, max(lo, math.exp(t))))


def signed_logfloat(lo, hi):
    return st.tuples(st.sampled_from([-1.0, 1.0]), logfloat(lo, hi)).map(lambda t: t[0] * t[1])


@st.composite
def int_array(draw, shape, lo, hi, dtype="int64"):
    n = int(np.prod(shape)) if len(shape) else 1
    seed = draw(st.integers(0, 2**32 - 1))
    kind = draw(st.sampled_from(["rand", "rand", "sparse", "const"]))
    rng = np.random.Generator(np.random.PCG64(seed))
    if kind == "rand":
        a = rng.integers(lo, hi + 1, size=n)
    elif kind == "sparse":
        a = np.full(n, lo)
        k = draw(st.integers(1, max(1, min(n, 4))))
        idx = rng.choice(n, size=k, replace=False)
        a[idx] = rng.integers(lo, hi + 1, size=k)
    else:
        a = np.full(n, draw(st.integers(lo, hi)))
    return a.reshape(shape).astype(dtype)


@st.composite
def float_array(draw, shape, kind=None, lo=-1.0, hi=1.0, dtype="float64"):
    """Array whose *content* comes from a PCG64 stream keyed by a drawn seed (so the
    example database/shrinker see one integer, not thousands of floats), with a drawn
    structural kind: dense noise, sparse impulses, constant, dyadic (exact arithmetic)."""
    n = int(np.prod(shape)) if len(shape) else 1
    seed = draw(st.integers(0, 2**32 - 1))
    kind = kind or draw(st.sampled_from(["dense", "dense", "sparse", "const", "dyadic"]))
    rng = np.random.Generator(np.random.PCG64(seed))
    if kind == "dense":
        a = rng.uniform(lo, hi, size=n)
    elif kind == "sparse":
        a = np.zeros(n)
        k = draw(st.integers(1, max(1, min(n, 4))))
        idx = rng.choice(n, size=k, replace=False)
        a[idx] = rng.uniform(lo, hi, size=k)
    elif kind == "const":
        a = np.full(n, draw(st.floats(lo, hi, allow_nan=False)))
    else:
        a = rng.integers(int(lo * 16), int(hi * 16) + 1, size=n) / 16.0
    return a.reshape(shape).astype(dtype)


@st.composite
def complex_array(draw, shape, kind=None):
    re = draw(float_array(shape, kind=kind))
    im = draw(float_array(shape, kind=kind))
    return re + 1j * im


@st.composite
def mask01(draw, n, m=None, min_active=1):
    """0/1 mask (int64) on an n x m grid with at least min_active ones; structural classes drawn."""
    m = m or n
    seed = draw(st.integers(0, 2**32 - 1))
    p = draw(st.sampled_from([0.2, 0.5, 0.8, 1.0]))
    rng = np.random.Generator(np.random.PCG64(seed))
    a = (rng.uniform(size=(n, m)) < p).astype(np.int64)
    while a.sum() < min_active:
        a[rng.integers(0, n), rng.integers(0, m)] = 1
    return a


def np_rng(seed):
    return np.random.Generator(np.random.PCG64(int(seed)))
