"""Build one slope covariance matrix single-process and with worker processes under a given multiprocessing start
method, in THIS (fresh) interpreter, and report whether the two are bit-identical.

usage: python -m vt.startmethod <fork|spawn|forkserver>     (stdin: JSON {"cfg": ..., "threads": [..]})
'spawn' is the default start method on macOS and Windows and 'forkserver' the default on Linux from Python 3.14: the
worker processes then do not inherit the parent's memory, they import the library afresh and receive their task
through pickle."""
import json
import multiprocessing
import os
import sys
import traceback


def main():
    sys.path.insert(0, os.path.abspath(os.environ.get("VERIF_REPO", "/repo")))
    import warnings
    warnings.simplefilter("ignore")
    multiprocessing.set_start_method(sys.argv[1])
    import numpy as np
    from aotools.turbulence import slopecovariance as sc
    job = json.load(sys.stdin)
    c = job["cfg"]

    def make(threads):
        return sc.CovarianceMatrix(c["n_wfs"], [np.array(m) for m in c["pupil_masks"]], c["telescope_diameter"], c["subap_diameters"], c["gs_altitudes"],
                                   c["gs_positions"], c["wfs_wavelengths"], c["n_layers"], c["layer_altitudes"], c["layer_r0s"], c["layer_L0s"], threads)
    ref = np.array(make(1).make_covariance_matrix())
    out = []
    for t in job["threads"]:
        try:
            o = make(t)
            got = np.array(o.make_covariance_matrix())
            again = np.array(o.make_covariance_matrix())
            same = got.shape == ref.shape and got.dtype == ref.dtype and bool(np.array_equal(got.view(np.uint32), ref.view(np.uint32)))
            same2 = again.shape == ref.shape and bool(np.array_equal(again.view(np.uint32), ref.view(np.uint32)))
            out.append({"threads": t, "identical": same, "rebuild_identical": same2, "differing": int(np.sum(got.view(np.uint32) != ref.view(np.uint32))) if got.shape == ref.shape else -1})
        except Exception as e:
            tb = traceback.extract_tb(e.__traceback__)
            out.append({"threads": t, "error": "%s: %s" % (type(e).__name__, str(e)[:200]), "in_library": any("aotools" in f.filename for f in tb)})
    json.dump(out, sys.stdout)


if __name__ == "__main__":
    main()
