"""Runner: ./check <ID> quick|thorough  |  ./check <ID> --replay <file>

Parent process: schedules (law, shard) jobs as fresh worker processes (up to
VERIF_JOBS at a time), replays the corpus, merges the workers' records into
evidence/<ID>.json, applies known_findings.json, prints VIOLATION /
KNOWN-FINDING lines, sets the exit code (0 held, 1 violation, 2 harness error).
"""
import argparse
import importlib
import json
import os
import subprocess
import sys
import tempfile
import time
import traceback
import types
from concurrent.futures import ThreadPoolExecutor

from . import core
from .core import Ctx, Failure, HarnessError, VERIF_DIR, REPO_DIR

LEVEL = "exploration"


def setup_paths():
    if REPO_DIR not in sys.path[:1]:
        sys.path.insert(0, REPO_DIR)
    import aotools
    got = os.path.abspath(os.path.dirname(aotools.__file__))
    if not got.startswith(REPO_DIR + os.sep):
        raise HarnessError("aotools imported from %s, expected under %s" % (got, REPO_DIR))


def load_prop(pid):
    mod = importlib.import_module("vt.props.%s" % pid.lower())
    return mod


def load_findings():
    path = os.path.join(VERIF_DIR, "known_findings.json")
    if not os.path.exists(path):
        return []
    with open(path) as f:
        return json.load(f)["findings"]


def open_ids(pid):
    return [f["id"] for f in load_findings() if f["property"] == pid and f["status"] == "open"]


def find_law(mod, name):
    for law in mod.LAWS:
        if law.name == name:
            return law
    raise HarnessError("no law %r in %s" % (name, mod.__name__))


def write_replay(pid, law, case, exc, seed):
    d = os.path.join(VERIF_DIR, "replays")
    os.makedirs(d, exist_ok=True)
    h = core.case_hash(case)
    path = os.path.join(d, "%s-%s-%s.json" % (pid, law, h))
    rec = {"property": pid, "law": law, "case": core._enc(case), "message": "%s: %s" % (type(exc).__name__, exc),
           "seed": seed, "repo_head": core.repo_head()}
    with open(path, "w") as f:
        json.dump(rec, f, indent=1, sort_keys=True)
    return os.path.relpath(path, VERIF_DIR)


# --------------------------------------------------------------------------- worker

def worker_main(args):
    out = {"law": args.law, "shard": args.shard}
    t0 = time.time()
    try:
        setup_paths()
        mod = load_prop(args.prop)
        law = find_law(mod, args.law)
        seed = core.derive_seed(args.seed, args.prop, args.law, args.shard)
        ctx = Ctx(args.prop, args.law, args.tier, seed, args.shard, args.nshards, open_ids(args.prop))
        try:
            if hasattr(mod, "self_test") and args.shard == 0:
                pass  # self tests run once in the parent
            law.run(ctx)
        except Failure as f:
            if core.is_violation(f.exc):
                rp = write_replay(args.prop, args.law, f.case, f.exc, args.seed)
                out["violation"] = {"replay": rp, "message": "%s: %s" % (type(f.exc).__name__, f.exc)}
            else:
                out["error"] = "".join(traceback.format_exception(type(f.exc), f.exc, f.tb))
        out["ctx"] = ctx.to_json()
    except BaseException as e:  # noqa: B902
        out["error"] = "".join(traceback.format_exception(type(e), e, e.__traceback__))
    out["wall_s"] = time.time() - t0
    with open(args.out, "w") as f:
        json.dump(out, f)
    return 0


# --------------------------------------------------------------------------- replay

def run_case(pid, lawname, case, open_findings=()):
    """Execute one saved case.  Returns None if it holds, else the exception."""
    mod = load_prop(pid)
    law = find_law(mod, lawname)
    ctx = Ctx(pid, lawname, "quick", 0, 0, 1, open_findings)
    try:
        law.replay(ctx, case)
    except BaseException as e:  # noqa: B902
        if isinstance(e, KeyboardInterrupt):
            raise
        return e
    return None


def load_case_file(path):
    with open(path) as f:
        rec = json.load(f)
    return rec["property"], rec["law"], core._dec(rec["case"]), rec


def replay_main(pid, path):
    setup_paths()
    p, lawname, case, rec = load_case_file(path)
    if p != pid:
        raise HarnessError("replay file is for %s" % p)
    exc = run_case(pid, lawname, case, open_ids(pid) if rec.get("honour_known_findings") else ())
    if exc is None:
        print("replay %s: property held" % path)
        return 0
    if core.is_violation(exc):
        print("replay %s: %s: %s" % (path, type(exc).__name__, exc))
        print("VIOLATION property=%s replay=%s" % (pid, path))
        return 1
    traceback.print_exception(type(exc), exc, exc.__traceback__)
    return 2


# --------------------------------------------------------------------------- parent

def run_jobs(pid, tier, seed, mod, only=None):
    jobs = []
    for law in mod.LAWS:
        if only and law.name not in only:
            continue
        n = law.shards.get(tier, 1)
        for s in range(n):
            jobs.append((law.name, s, n))
    tmp = tempfile.mkdtemp(prefix="vt-%s-" % pid, dir=os.path.join(VERIF_DIR, "evidence"))
    env = dict(os.environ)
    env.update({"PYTHONHASHSEED": "0", "OMP_NUM_THREADS": "1", "OPENBLAS_NUM_THREADS": "1",
                "MKL_NUM_THREADS": "1", "NUMBA_NUM_THREADS": "1", "PYTHONPATH": VERIF_DIR,
                "PYTHONDONTWRITEBYTECODE": "1", "MPLBACKEND": "Agg"})
    maxj = int(os.environ.get("VERIF_JOBS", "16"))

    def one(job):
        name, s, n = job
        out = os.path.join(tmp, "%s-%d.json" % (name, s))
        cmd = [sys.executable, "-m", "vt.runner", "--worker", "--prop", pid, "--tier", tier, "--seed", str(seed),
               "--law", name, "--shard", str(s), "--nshards", str(n), "--out", out]
        limit = int(os.environ.get("VERIF_WORKER_TIMEOUT", "1500" if tier == "quick" else "14000"))
        proc = subprocess.Popen(cmd, env=env, cwd=VERIF_DIR, stdout=subprocess.PIPE, stderr=subprocess.PIPE, text=True, start_new_session=True)
        try:
            so, se = proc.communicate(timeout=limit)
        except subprocess.TimeoutExpired:
            import signal
            try:
                os.killpg(proc.pid, signal.SIGKILL)
            except OSError:
                pass
            so, se = proc.communicate()
            return {"law": name, "shard": s, "error": "worker exceeded %d s and was killed (inconclusive, not a violation)" % limit}
        finally:
            # no process of this job's session may outlive it (real worker pools forked by the code under test)
            import signal
            try:
                os.killpg(proc.pid, signal.SIGKILL)
            except OSError:
                pass
        p = types.SimpleNamespace(returncode=proc.returncode, stdout=so, stderr=se)
        if not os.path.exists(out):
            return {"law": name, "shard": s, "error": "worker died rc=%s\n%s\n%s" % (p.returncode, p.stdout[-2000:], p.stderr[-4000:])}
        with open(out) as f:
            r = json.load(f)
        os.unlink(out)
        r["stderr_tail"] = p.stderr[-1500:] if p.returncode else ""
        return r

    try:
        with ThreadPoolExecutor(max_workers=maxj) as ex:
            results = list(ex.map(one, jobs))
    finally:
        try:
            os.rmdir(tmp)
        except OSError:
            pass
    return results


def main(argv=None):
    ap = argparse.ArgumentParser()
    ap.add_argument("--worker", action="store_true")
    ap.add_argument("--prop", required=True)
    ap.add_argument("--tier", default="quick")
    ap.add_argument("--seed", type=int, default=int(os.environ.get("VERIF_SEED", "1") or 1))
    ap.add_argument("--law")
    ap.add_argument("--laws", default="")
    ap.add_argument("--shard", type=int, default=0)
    ap.add_argument("--nshards", type=int, default=1)
    ap.add_argument("--out")
    ap.add_argument("--replay")
    ap.add_argument("--no-evidence", action="store_true")
    args = ap.parse_args(argv)
    pid = args.prop.upper()
    args.prop = pid
    if args.worker:
        return worker_main(args)
    try:
        if args.replay:
            return replay_main(pid, args.replay)
        return check_main(pid, args)
    except HarnessError as e:
        print("HARNESS ERROR: %s" % e, file=sys.stderr)
        return 2


def check_main(pid, args):
    t0 = time.time()
    tier = args.tier
    if tier not in ("quick", "thorough"):
        raise HarnessError("tier must be quick or thorough")
    setup_paths()
    os.makedirs(os.path.join(VERIF_DIR, "evidence"), exist_ok=True)
    mod = load_prop(pid)
    findings = [f for f in load_findings() if f["property"] == pid]
    opens = [f for f in findings if f["status"] == "open"]
    violations, errors = [], []

    # 0. oracle self tests (harness sanity; failure = exit 2)
    if hasattr(mod, "self_test"):
        try:
            mod.self_test()
        except BaseException as e:  # noqa: B902
            traceback.print_exception(type(e), e, e.__traceback__)
            raise HarnessError("oracle self-test failed: %s" % e)

    # 1. corpus (regression inputs; replayed first, plain calls, no Hypothesis)
    corpus_dir = os.path.join(VERIF_DIR, "corpus", pid)
    corpus_n = corpus_nt = 0
    kf_repros = {os.path.normpath(f["repro"]): f for f in opens if f.get("repro")}
    if os.path.isdir(corpus_dir) and not os.environ.get("VERIF_NO_CORPUS"):
        for fn in sorted(os.listdir(corpus_dir)):
            if not fn.endswith(".json"):
                continue
            rel = os.path.join("corpus", pid, fn)
            if os.path.normpath(rel) in kf_repros:
                continue
            p, lawname, case, rec = load_case_file(os.path.join(VERIF_DIR, rel))
            exc = run_case(pid, lawname, case, [f["id"] for f in opens])
            corpus_n += 1
            if exc is not None:
                if core.is_violation(exc):
                    violations.append({"law": lawname, "replay": rel, "message": "%s: %s" % (type(exc).__name__, exc)})
                else:
                    errors.append("corpus %s: %s" % (rel, "".join(traceback.format_exception(type(exc), exc, exc.__traceback__))))

    # 2. generated exploration
    only = [x for x in args.laws.split(",") if x] or None
    results = run_jobs(pid, tier, args.seed, mod, only)

    evaluations = corpus_n
    nt = set()
    nt_bulk = 0
    per_law = {}
    classes, excluded, rejected, resid, notes = {}, {}, {}, {}, {}
    samples, exhaustive = [], []
    for r in results:
        if "error" in r:
            errors.append("law %s shard %s: %s" % (r.get("law"), r.get("shard"), r["error"]))
        if "violation" in r:
            v = dict(r["violation"])
            v["law"] = r["law"]
            violations.append(v)
        c = r.get("ctx")
        if not c:
            continue
        evaluations += c["evaluations"]
        pl = per_law.setdefault(c["law"], {"evaluations": 0, "distinct_nontrivial": 0, "shards": 0, "_nt": set(), "wall_s": 0.0})
        pl["evaluations"] += c["evaluations"]
        pl["shards"] += 1
        pl["wall_s"] = round(pl["wall_s"] + r.get("wall_s", 0.0), 2)
        pl["_nt"].update(c["law"] + ":" + h for h in c["nt"])
        pl["distinct_nontrivial"] += c["nt_bulk"]
        nt.update(c["law"] + ":" + h for h in c["nt"])
        nt_bulk += c["nt_bulk"]
        for k, v in c["classes"].items():
            classes[c["law"] + "." + k] = classes.get(c["law"] + "." + k, 0) + v
        for k, v in c["excluded"].items():
            excluded[k] = excluded.get(k, 0) + v
        for k, v in c["rejected"].items():
            rejected[c["law"] + "." + k] = rejected.get(c["law"] + "." + k, 0) + v
        for k, (val, tol) in c["resid"].items():
            key = c["law"] + "." + k
            if key not in resid or val > resid[key]["max_observed"]:
                resid[key] = {"max_observed": val, "tolerance": tol}
        for k, v in c["notes"].items():
            notes[c["law"] + "." + k] = v
        exhaustive.extend(c.get("exhaustive", []))
        # keep up to 2 samples per law
        have = sum(1 for s in samples if s["law"] == c["law"])
        samples.extend(c["samples"][:max(0, 2 - have)])
    for k, pl in per_law.items():
        pl["distinct_nontrivial"] += len(pl.pop("_nt"))
    # a law most of whose generated cases were rejected by construction decides nothing: never report that as "held"
    for k, pl in per_law.items():
        rej_l = sum(v for kk, v in rejected.items() if kk.startswith(k + "."))
        if rej_l >= 10 and rej_l > pl["evaluations"]:
            errors.append("law %s: %d generated cases were rejected by construction and only %d evaluated - the check would be vacuous (does the library refuse ordinary inputs?)" % (k, rej_l, pl["evaluations"]))

    # 3. known findings: replay each open entry's stored reproduction (without exclusions)
    kf_lines = []
    for f in opens:
        if not f.get("repro"):
            continue
        p, lawname, case, rec = load_case_file(os.path.join(VERIF_DIR, f["repro"]))
        exc = run_case(pid, lawname, case, ())
        if exc is not None and core.is_violation(exc):
            kf_lines.append("KNOWN-FINDING: property=%s %s [%s] (%s)" % (pid, f["text"], f["id"], str(exc)[:160]))
        elif exc is not None:
            errors.append("known-finding repro %s: %s" % (f["id"], "".join(traceback.format_exception(type(exc), exc, exc.__traceback__))))
        else:
            notes["known_finding_no_longer_reproduces." + f["id"]] = True

    wall = time.time() - t0
    ev = {
        "property_id": pid, "tier": tier, "seed": args.seed, "level": LEVEL,
        "coverage": {
            "evaluations": evaluations,
            "distinct_nontrivial": len(nt) + nt_bulk,
            "rule": getattr(mod, "RULE", ""),
            "samples": samples,
            "per_law": per_law,
            "class_histogram": classes,
            "rejected_by_construction": rejected,
            "excluded_by_known_finding": excluded,
            "max_residual_vs_tolerance": resid,
            "corpus_cases_replayed": corpus_n,
            "notes": notes,
            "known_findings_reported": [l for l in kf_lines],
        },
        "assumptions": list(getattr(mod, "ASSUMPTIONS", [])),
        "wall_s": round(wall, 2),
        "violations": len(violations),
    }
    if exhaustive:
        ev["coverage"]["exhaustive_subdomains"] = exhaustive
    if errors:
        ev["coverage"]["harness_errors"] = [e[-600:] for e in errors]
    if not args.no_evidence:
        path = os.path.join(VERIF_DIR, "evidence", "%s.json" % pid)
        with open(path + ".tmp", "w") as f:
            json.dump(ev, f, indent=1, sort_keys=True)
        os.replace(path + ".tmp", path)

    for l in kf_lines:
        print(l)
    print("%s %s seed=%d: %d evaluations, %d distinct non-trivial, %d laws, %.1fs" % (
        pid, tier, args.seed, evaluations, len(nt) + nt_bulk, len(per_law), wall))
    for k in sorted(per_law):
        print("  law %-34s evals=%-8d nontrivial=%-8d wall=%.1fs" % (k, per_law[k]["evaluations"], per_law[k]["distinct_nontrivial"], per_law[k]["wall_s"]))
    if violations:
        for v in violations:
            print("  law %s: %s" % (v["law"], v["message"][:600]))
            print("VIOLATION property=%s replay=%s" % (pid, v["replay"]))
        return 1
    if errors:
        for e in errors:
            print("HARNESS ERROR: %s" % e, file=sys.stderr)
        return 2
    return 0


if __name__ == "__main__":
    sys.exit(main())
