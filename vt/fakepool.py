"""A schedule-owning stand-in for multiprocessing.Pool.

It honours the documented contract of each Pool method and nothing more: tasks are *executed* in one drawn
permutation and *complete* (results delivered to unordered iterators / callbacks) in another; map/starmap/imap
return results in submission order, imap_unordered and callbacks see completion order.  Arguments and results
cross a pickle boundary exactly as with real worker processes, so in-worker mutation of arguments is lost.
"""
import pickle

import numpy as np


class _Async:
    def __init__(self, value):
        self._v = value

    def get(self, timeout=None):
        return self._v

    def wait(self, timeout=None):
        return None

    def ready(self):
        return True

    def successful(self):
        return True


class FakePool:
    instances = []

    def __init__(self, processes=None, schedule=None, log=None, **kw):
        self.processes = processes
        self.schedule = schedule if schedule is not None else {"style": "identity", "seed": 0}
        self.calls = 0
        self.closed = False
        self.log = log if log is not None else []
        FakePool.instances.append(self)

    # -- schedule
    def _perm(self, n, which):
        st = self.schedule.get("style", "identity")
        if "explicit_" + which in self.schedule:
            p = list(self.schedule["explicit_" + which])
            if sorted(p) == list(range(n)):
                return p
        if st == "identity" or n <= 1:
            return list(range(n))
        if st == "reversed":
            return list(range(n))[::-1]
        rng = np.random.Generator(np.random.PCG64([int(self.schedule.get("seed", 0)), self.calls, 0 if which == "exec" else 1]))
        return [int(i) for i in rng.permutation(n)]

    def _run(self, func, arglist, star=False):
        n = len(arglist)
        ex = self._perm(n, "exec")
        done = self._perm(n, "done")
        self.calls += 1
        self.log.append({"n": n, "exec": ex, "done": done})
        results = [None] * n
        for i in ex:
            a = pickle.loads(pickle.dumps(arglist[i]))
            r = func(*a) if star else func(a)
            results[i] = pickle.loads(pickle.dumps(r))
        return results, done

    # -- the Pool API
    def map(self, func, iterable, chunksize=None):
        return self._run(func, list(iterable))[0]

    def starmap(self, func, iterable, chunksize=None):
        return self._run(func, list(iterable), star=True)[0]

    def imap(self, func, iterable, chunksize=1):
        return iter(self._run(func, list(iterable))[0])

    def imap_unordered(self, func, iterable, chunksize=1):
        res, done = self._run(func, list(iterable))
        return iter([res[i] for i in done])

    def apply(self, func, args=(), kwds=None):
        return func(*args, **(kwds or {}))

    def apply_async(self, func, args=(), kwds=None, callback=None, error_callback=None):
        r = pickle.loads(pickle.dumps(func(*pickle.loads(pickle.dumps(args)), **(kwds or {}))))
        self.calls += 1
        if callback:
            callback(r)
        return _Async(r)

    def map_async(self, func, iterable, chunksize=None, callback=None, error_callback=None):
        res = self._run(func, list(iterable))[0]
        if callback:
            callback(res)
        return _Async(res)

    def starmap_async(self, func, iterable, chunksize=None, callback=None, error_callback=None):
        res = self._run(func, list(iterable), star=True)[0]
        if callback:
            callback(res)
        return _Async(res)

    def close(self):
        self.closed = True

    def join(self):
        return None

    def terminate(self):
        self.closed = True

    def __enter__(self):
        return self

    def __exit__(self, *a):
        self.terminate()
        return False
