"""Slow, obviously-correct centred DFT (O(N^2) matrix form), independent of numpy.fft's shift helpers.

X[k] = delta   * sum_n x[n] exp(-2 pi i (n-c)(k-c)/N)
x[n] = delta_f * sum_k X[k] exp(+2 pi i (n-c)(k-c)/N)          c = N//2
c is the centre sample for odd N and the conventional centre for even N.
"""
import numpy as np


def dft_matrix(N, sign=-1):
    c = N // 2
    n = np.arange(N) - c
    # reduce the integer product mod N before multiplying by 2 pi / N: exact phases
    prod = np.outer(n, n) % N
    return np.exp(sign * 2j * np.pi * prod / N)


def ft(x, delta):
    x = np.asarray(x)
    return (x.astype(np.complex128) @ dft_matrix(x.shape[-1], -1).T) * delta


def ift(X, delta_f):
    X = np.asarray(X)
    return (X.astype(np.complex128) @ dft_matrix(X.shape[-1], +1).T) * delta_f


def ft2(x, delta):
    x = np.asarray(x).astype(np.complex128)
    F1 = dft_matrix(x.shape[-1], -1)
    F2 = dft_matrix(x.shape[-2], -1)
    return np.einsum("ka,...ab,lb->...kl", F2, x, F1) * delta ** 2


def ift2(X, delta_f):
    X = np.asarray(X).astype(np.complex128)
    F1 = dft_matrix(X.shape[-1], +1)
    F2 = dft_matrix(X.shape[-2], +1)
    return np.einsum("ka,...ab,lb->...kl", F2, X, F1) * delta_f ** 2


def half_ft(x, delta):
    """Non-negative-frequency half (k = 0..N//2) of the centred transform, standard order."""
    x = np.asarray(x).astype(np.complex128)
    N = x.shape[-1]
    c = N // 2
    n = np.arange(N) - c
    k = np.arange(N // 2 + 1)
    E = np.exp(-2j * np.pi * (np.outer(k, n) % N) / N)
    return (x @ E.T) * delta


def self_test():
    rng = np.random.Generator(np.random.PCG64(7))
    for N in (1, 2, 4, 8, 16):
        x = rng.normal(size=N) + 1j * rng.normal(size=N)
        ref = np.fft.fftshift(np.fft.fft(np.fft.ifftshift(x)))
        assert np.allclose(ft(x, 1.0), ref, atol=1e-12), N
    for N in (3, 5, 9):
        x = rng.normal(size=N) + 1j * rng.normal(size=N)
        # direct definition, odd N: origin at the centre sample
        c = N // 2
        ref = np.array([sum(x[n] * np.exp(-2j * np.pi * (n - c) * (k - c) / N) for n in range(N)) for k in range(N)])
        assert np.allclose(ft(x, 1.0), ref, atol=1e-12)
        assert np.allclose(ift(ft(x, 0.5), 1 / (N * 0.5)), x, atol=1e-12)
    x = rng.normal(size=(4, 6))
    ref = np.fft.fftshift(np.fft.fft2(np.fft.ifftshift(x)))
    assert np.allclose(ft2(x, 1.0), ref, atol=1e-12)
