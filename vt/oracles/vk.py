"""Independent von Karman closed forms in float64, written from the literature (Conan 2000; Assemat et al. 2006).

  Phi(f)  = C_PSD r0^-5/3 (f^2 + L0^-2)^-11/6                  C_PSD = 0.0228955...
  B(r)    = (L0/r0)^5/3  C_B  x^5/6 K_5/6(x),   x = 2 pi r / L0     C_B = Gamma(11/6) 2^-5/6 pi^-8/3 (24/5 Gamma(6/5))^5/6
  B(0)    = (L0/r0)^5/3  C_B  2^-1/6 Gamma(5/6)               ( = 0.0863142 (L0/r0)^5/3 )
  D(r)    = 2 (B(0) - B(r))   evaluated by its power series for x < 1 (no cancellation)
"""
import math

import numpy as np
from scipy.special import gamma, kv, j0

NU = 5.0 / 6.0
C_B = gamma(11.0 / 6) * 2 ** (-5.0 / 6) * math.pi ** (-8.0 / 3) * (24.0 / 5 * gamma(6.0 / 5)) ** (5.0 / 6)
B0_COEF = C_B * 2 ** (-1.0 / 6) * gamma(5.0 / 6)                 # 0.08631...
C_PSD = (24.0 / 5 * gamma(6.0 / 5)) ** (5.0 / 6) * gamma(11.0 / 6) ** 2 / (2 * math.pi ** (11.0 / 3))   # 0.022895...
C_KOLM = 2 * (24.0 / 5 * gamma(6.0 / 5)) ** (5.0 / 6)            # 6.8839


def B(r, r0, L0):
    r = np.asarray(r, dtype=np.float64)
    x = 2 * np.pi * r / L0
    with np.errstate(all="ignore"):
        c = np.where(x > 0, x ** NU * kv(NU, np.where(x > 0, x, 1.0)), 2 ** (-1.0 / 6) * gamma(5.0 / 6))
    return (L0 / r0) ** (5.0 / 3) * C_B * c


def _one_minus_term_series(x):
    """1 - (2^(1-nu)/Gamma(nu)) x^nu K_nu(x) by series (x < ~2)."""
    pref = (2 ** (1 - NU) / gamma(NU)) * (math.pi / (2 * math.sin(NU * math.pi)))
    s1 = np.zeros_like(x)
    s2 = np.zeros_like(x)
    for k in range(0, 40):
        if k >= 1:
            s1 = s1 + (x / 2) ** (2 * k) * 2 ** NU / (math.factorial(k) * gamma(k - NU + 1))
        s2 = s2 + (x / 2) ** (2 * k + 2 * NU) * 2 ** NU / (math.factorial(k) * gamma(k + NU + 1))
    return -pref * (s1 - s2)


def D(r, r0, L0):
    r = np.asarray(r, dtype=np.float64)
    x = 2 * np.pi * r / L0
    small = x < 1.0
    with np.errstate(all="ignore"):
        direct = 1 - (2 ** (1 - NU) / gamma(NU)) * np.where(x > 0, x, 1.0) ** NU * kv(NU, np.where(x > 0, x, 1.0))
    ser = _one_minus_term_series(np.where(small, x, 0.5))
    frac = np.where(small, ser, direct)
    frac = np.where(x == 0, 0.0, frac)
    return 2 * (L0 / r0) ** (5.0 / 3) * B0_COEF * frac


def D_kolmogorov(r, r0):
    return C_KOLM * (np.asarray(r, dtype=np.float64) / r0) ** (5.0 / 3)


def psd(f, r0, L0, c=C_PSD):
    return c * r0 ** (-5.0 / 3) * (f * f + L0 ** -2.0) ** (-11.0 / 6)


_GLX, _GLW = np.polynomial.legendre.leggauss(24)


def hankel_D(r, r0, L0, c=0.023, periods=240):
    """D(r) = 4 pi int_0^inf Phi(f) (1 - J0(2 pi f r)) f df for the spectrum c r0^-5/3 (f^2+L0^-2)^-11/6,
    by Gauss-Legendre quadrature over half-periods of J0 (first period split on the scale of the knee), the
    non-oscillatory tail integrated analytically."""
    r = float(r)
    xk = 2 * math.pi * r / L0                       # position of the spectral knee in x = 2 pi f r
    periods = int(max(periods, math.ceil(40 * xk / math.pi)))    # integrate well past the knee before the analytic tail
    edges = [0.0]
    e = min(xk, math.pi) * 1e-3
    while e < math.pi:                               # geometric sub-intervals: the integrand behaves like x^(-2/3) above the knee
        edges.append(e)
        e *= 2.0
    first = [e for e in edges if e < math.pi] + [math.pi]
    edges = first + [math.pi * k for k in range(2, periods + 1)]
    edges = np.array(edges)
    a, b = edges[:-1, None], edges[1:, None]
    x = 0.5 * (b - a) * _GLX[None, :] + 0.5 * (b + a)
    w = 0.5 * (b - a) * _GLW[None, :]
    f = x / (2 * math.pi * r)
    integrand = psd(f, r0, L0, c) * (1 - j0(x)) * f / (2 * math.pi * r)
    total = float(np.sum(integrand * w))
    F = edges[-1] / (2 * math.pi * r)
    tail = c * r0 ** (-5.0 / 3) * (3.0 / 5) * (F * F + L0 ** -2.0) ** (-5.0 / 6)      # int_F^inf Phi f df
    return 4 * math.pi * (total + tail)


def self_test():
    assert abs(B0_COEF - 0.0863142) < 2e-6, B0_COEF
    assert abs(C_PSD - 0.022895) < 2e-6, C_PSD
    assert abs(C_KOLM - 6.8839) < 2e-4, C_KOLM
    r0, L0 = 0.15, 20.0
    rr = np.array([1e-5, 1e-3, 0.1, 1.0, 3.0, 10.0, 100.0, 1e4])
    d1 = D(rr, r0, L0)
    d2 = 2 * (B(0.0, r0, L0) - B(rr, r0, L0))
    ok = rr >= 0.1
    assert np.allclose(d1[ok], d2[ok], rtol=1e-10), (d1, d2)
    assert np.allclose(d1[~ok], d2[~ok], rtol=1e-4)
    # series and direct evaluation agree where both are accurate
    x = np.array([0.5, 0.9, 0.99])
    direct = 1 - (2 ** (1 - NU) / gamma(NU)) * x ** NU * kv(NU, x)
    assert np.allclose(_one_minus_term_series(x), direct, rtol=1e-12)
    # Kolmogorov limit
    assert abs(D(1e-4, r0, 1e9) / D_kolmogorov(1e-4, r0) - 1) < 1e-2
    # numerical Hankel transform of the exact spectrum reproduces the closed form
    for r in (0.01, 0.3, 5.0, 60.0, 400.0):
        h = hankel_D(r, r0, L0, c=C_PSD)
        assert abs(h / float(D(r, r0, L0)) - 1) < 2e-7, (r, h, float(D(r, r0, L0)))
