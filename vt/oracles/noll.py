"""Noll (1976) ordering of Zernike modes enumerated from its definition, and an exact radial polynomial."""
import math

import numpy as np


def noll_rows(nmax):
    """Yield (j, n, m) in Noll order for n = 0..nmax: rows by n, |m| ascending within a row,
    even j <-> cosine term (m > 0), odd j <-> sine term (m < 0), m = 0 unsigned."""
    j = 0
    for n in range(nmax + 1):
        ms = [0] if n % 2 == 0 else []
        for a in range(2 if n % 2 == 0 else 1, n + 1, 2):
            ms += [a, a]
        for a in ms:
            j += 1
            if a == 0:
                yield j, n, 0
            else:
                yield j, n, (a if j % 2 == 0 else -a)


def noll_table(jmax):
    """Arrays n[j], m[j] for j = 1..jmax (index 0 unused), vectorised per row."""
    n_arr = np.zeros(jmax + 1, dtype=np.int64)
    m_arr = np.zeros(jmax + 1, dtype=np.int64)
    n = 0
    start = 1
    while start <= jmax:
        cnt = n + 1
        js = np.arange(start, start + cnt)
        k = np.arange(cnt)
        if n % 2 == 0:
            am = 2 * ((k + 1) // 2)
        else:
            am = 2 * (k // 2) + 1
        sgn = np.where(js % 2 == 0, 1, -1)
        mm = np.where(am == 0, 0, am * sgn)
        end = min(start + cnt, jmax + 1)
        n_arr[start:end] = n
        m_arr[start:end] = mm[:end - start]
        start += cnt
        n += 1
    return n_arr, m_arr


def noll_single(j):
    """(n, m) of one Noll index in integer arithmetic: row n is the largest n with n(n+1)/2 < j; inside the row |m| ascends
    (0,2,2,4,4.. for even n; 1,1,3,3.. for odd n); even j <-> m > 0.  Validated against the enumeration in self_test."""
    n = (math.isqrt(8 * (j - 1) + 1) - 1) // 2
    k = j - n * (n + 1) // 2 - 1                      # 0-based position in the row
    am = 2 * ((k + 1) // 2) if n % 2 == 0 else 2 * (k // 2) + 1
    return n, (0 if am == 0 else (am if j % 2 == 0 else -am))


def radial(n, m, r):
    """R_n^|m|(r) with exact integer coefficients."""
    m = abs(m)
    r = np.asarray(r, dtype=np.float64)
    out = np.zeros_like(r)
    for k in range((n - m) // 2 + 1):
        c = (-1) ** k * math.comb(n - k, k) * math.comb(n - 2 * k, (n - m) // 2 - k)
        out = out + c * r ** (n - 2 * k)
    return out


def radial_exact(n, m, r2_fractions):
    """R_n^|m| at radii whose SQUARES are the given Fractions: the polynomial in r^2 is summed in rational arithmetic (no
    cancellation whatever the order), rounded once, and multiplied by r^|m|."""
    from fractions import Fraction
    m = abs(m)
    K = (n - m) // 2
    coef = [(-1) ** k * math.comb(n - k, k) * math.comb(n - 2 * k, K - k) for k in range(K + 1)]
    out = []
    for q in r2_fractions:
        acc = Fraction(0)
        for c in coef:                      # Horner in q: sum_k c_k q^(K-k)
            acc = acc * q + c
        out.append(float(acc) * float(q) ** (m / 2.0))
    return np.array(out)


def mode(n, m, N):
    """Noll-normalised Zernike (n, m) on the N x N pixel-centre grid of the inscribed unit pupil."""
    c = (np.arange(N) + 0.5 - N / 2.0) / (N / 2.0)
    X, Y = np.meshgrid(c, c)                      # X along columns (last axis), Y along rows
    R = np.sqrt(X * X + Y * Y)
    th = np.arctan2(Y, X)
    if m == 0:
        Z = math.sqrt(n + 1) * radial(n, 0, R)
    elif m > 0:
        Z = math.sqrt(2 * (n + 1)) * radial(n, m, R) * np.cos(m * th)
    else:
        Z = math.sqrt(2 * (n + 1)) * radial(n, m, R) * np.sin(-m * th)
    inside = (X * X + Y * Y) <= 1.0
    return Z * inside, inside


def self_test():
    rows = list(noll_rows(4))
    assert rows[:10] == [(1, 0, 0), (2, 1, 1), (3, 1, -1), (4, 2, 0), (5, 2, -2), (6, 2, 2), (7, 3, -1), (8, 3, 1), (9, 3, -3), (10, 3, 3)], rows[:10]
    assert rows[10:15] == [(11, 4, 0), (12, 4, 2), (13, 4, -2), (14, 4, 4), (15, 4, -4)]
    n, m = noll_table(2000)
    for j, nn, mm in noll_rows(40):
        if j <= 2000:
            assert n[j] == nn and m[j] == mm, (j, nn, mm, n[j], m[j])
    for j, nn, mm in noll_rows(60):
        assert noll_single(j) == (nn, mm), (j, nn, mm, noll_single(j))
    from fractions import Fraction
    qs = [Fraction(k, 16) for k in range(17)]
    rr = np.sqrt(np.array([float(q) for q in qs]))
    for nn, mm in ((2, 0), (4, 0), (3, 1), (6, 2), (11, 5)):
        assert np.allclose(radial_exact(nn, mm, qs), radial(nn, mm, rr), atol=1e-12), (nn, mm)
    assert abs(radial_exact(60, 0, [Fraction(1)])[0] - 1) < 1e-12 and np.max(np.abs(radial_exact(60, 0, qs))) <= 1 + 1e-12
    # radial polynomials: R_n^m(1) = 1, known forms
    r = np.linspace(0, 1, 7)
    assert np.allclose(radial(2, 0, r), 2 * r ** 2 - 1)
    assert np.allclose(radial(4, 0, r), 6 * r ** 4 - 6 * r ** 2 + 1)
    assert np.allclose(radial(3, 1, r), 3 * r ** 3 - 2 * r)
    for nn in range(0, 12):
        for mm in range(nn % 2, nn + 1, 2):
            assert abs(radial(nn, mm, 1.0) - 1) < 1e-9
