"""Independent slope-covariance oracle: covariance of finite-difference slope measurements of a layered von Karman
phase at the geometrically projected sub-aperture positions (Martin et al. 2012 geometry, written from scratch).

Slope a = (WFS w, axis, sub-aperture centre p).  At layer l (altitude h):
    s   = 1 - h/H_w (LGS, H_w != 0)  |  1 (NGS)
    c   = s p + theta_w h                    centre of the projected sub-aperture
    d_l = s d_w                              projected diameter;  gain g = lambda_w / (2 pi d_l)
    measurement = g [phi(c + d_l/2 e_axis) - phi(c - d_l/2 e_axis)]
    Cov(a, b) = sum_l g_a g_b 1/2 [D(a+ - b-) + D(a- - b+) - D(a+ - b+) - D(a- - b-)]
Axis 0 ("x") is the first index of the pupil mask, axis 1 ("y") the second; guide-star (X, Y) offsets act on (axis0, axis1).
Rows are ordered per WFS: all x slopes, then all y slopes; sub-apertures in row-major mask order.
"""
import math

import numpy as np

from . import vk

ARCSEC = math.pi / 180 / 3600
KR = 0.17253 / (2 * vk.B0_COEF)        # the code's rounded constant (C08 checks it lies in the rounding band)


def subap_centres(mask, d, D):
    idx = np.argwhere(np.asarray(mask) == 1).astype(np.float64)       # row-major order, (n, 2)
    return (idx + 0.5) * d - D / 2.0


def slope_points(cfg, layer_h):
    """For every slope (in matrix order): the two end points, the gain, and (wfs, axis, projected diameter)."""
    plus, minus, gain, meta = [], [], [], []
    for w in range(cfg["n_wfs"]):
        d, H, lam = cfg["subap_diameters"][w], cfg["gs_altitudes"][w], cfg["wfs_wavelengths"][w]
        s = 1.0 if H == 0 else 1.0 - layer_h / H
        above = s <= 0            # a beacon does not sense turbulence at or above its own altitude: no contribution
        if above:
            s = 1.0
        p = subap_centres(cfg["pupil_masks"][w], d, cfg["telescope_diameter"])
        c = s * p + np.asarray(cfg["gs_positions"][w], dtype=np.float64) * ARCSEC * layer_h
        dl = s * d
        for axis in (0, 1):
            e = np.zeros(2)
            e[axis] = 0.5 * dl
            plus.append(c + e)
            minus.append(c - e)
            gain.append(np.full(len(c), 0.0 if above else lam / (2 * math.pi * dl)))
            meta += [(w, axis, dl)] * len(c)
    return np.concatenate(plus), np.concatenate(minus), np.concatenate(gain), meta


def covariance(cfg):
    total = None
    metas = []
    for l in range(cfg["n_layers"]):
        h, r0, L0 = cfg["layer_altitudes"][l], cfg["layer_r0s"][l], cfg["layer_L0s"][l]
        P, M, g, meta = slope_points(cfg, h)
        metas.append(meta)

        def Dm(A, B):
            sep = np.sqrt(((A[:, None, :] - B[None, :, :]) ** 2).sum(-1))
            return KR * vk.D(sep, r0, L0)

        C = 0.5 * (Dm(P, M) + Dm(M, P) - Dm(P, P) - Dm(M, M)) * np.outer(g, g)
        total = C if total is None else total + C
    return total, metas


def unequal_diameter_mask(metas, n):
    """Boolean (n, n): True where the two slopes belong to WFSs whose projected diameters differ at some layer."""
    out = np.zeros((n, n), dtype=bool)
    for meta in metas:
        dl = np.array([m[2] for m in meta])
        out |= np.abs(dl[:, None] - dl[None, :]) > 1e-12 * np.maximum(np.abs(dl[:, None]), np.abs(dl[None, :]))
    return out
