"""Direct-summation Fresnel / Fourier integrals in *physical coordinates* (no FFT, no shift helpers).

  U(x2) = (i lambda z)^-1  sum_{x1} U(x1) exp(i pi |x2-x1|^2 / (lambda z)) d1^2
Separable kernel, so the double sum is two small matrix products.
"""
import numpy as np


def grid(N, d):
    return (np.arange(N) - N // 2) * d


def fresnel_direct(U, wvl, x1, x2, d1, z):
    """U sampled at x1 (both axes), evaluated at x2 (both axes). U[row=y, col=x]."""
    K = np.exp(1j * np.pi * (x2[:, None] - x1[None, :]) ** 2 / (wvl * z))      # K[out, in]
    return (K @ U @ K.T) * (d1 * d1) / (1j * wvl * z)


def lens_direct(U, wvl, x1, x2, d1, f):
    E = np.exp(-2j * np.pi * np.outer(x2, x1) / (wvl * f))
    quad = np.exp(1j * np.pi / (wvl * f) * (x2[:, None] ** 2 + x2[None, :] ** 2))
    return quad * (E @ U @ E.T) * (d1 * d1) / (1j * wvl * f)


def gaussian_beam(x, y, w0, x0, y0, wvl, z):
    """Paraxial Gaussian beam with waist w0 at z=0 centred (x0,y0), Fresnel convention (no exp(ikz))."""
    zR = np.pi * w0 ** 2 / wvl
    q = 1 + 1j * z / zR
    X, Y = np.meshgrid(x, y)
    return np.exp(-((X - x0) ** 2 + (Y - y0) ** 2) / (w0 ** 2 * q)) / q


def gaussian_focal(x, y, w0, x0, y0, wvl, f):
    """Field in the focal plane of a lens placed against exp(-|r-r0|^2/w0^2)."""
    X, Y = np.meshgrid(x, y)
    fx, fy = X / (wvl * f), Y / (wvl * f)
    return (np.exp(1j * np.pi / (wvl * f) * (X ** 2 + Y ** 2)) / (1j * wvl * f) * np.pi * w0 ** 2
            * np.exp(-np.pi ** 2 * w0 ** 2 * (fx ** 2 + fy ** 2)) * np.exp(-2j * np.pi * (fx * x0 + fy * y0)))


def self_test():
    # the direct Fresnel sum of a well-sampled Gaussian reproduces the analytic beam
    N, d, wvl, w0 = 128, 1e-3, 1e-6, 5e-3
    x = grid(N, d)
    U0 = gaussian_beam(x, x, w0, 3e-3, -2e-3, wvl, 0.0)
    z = 100.0
    got = fresnel_direct(U0, wvl, x, x, d, z)
    want = gaussian_beam(x, x, w0, 3e-3, -2e-3, wvl, z)
    err = np.linalg.norm(got - want) / np.linalg.norm(want)
    assert err < 1e-7, err
    f = 100.0
    x2 = grid(N, wvl * f / (N * d))
    got = lens_direct(U0, wvl, x, x2, d, f)
    want = gaussian_focal(x2, x2, w0, 3e-3, -2e-3, wvl, f)
    err = np.linalg.norm(got - want) / np.linalg.norm(want)
    assert err < 1e-7, err
