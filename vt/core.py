"""Core of the verification framework: laws, per-law context, JSON codec, comparators.

A *law* is one executable statement of (part of) a property.  It owns a
generator (Hypothesis strategy, state machine, or finite enumeration), an oracle
(inside its body) and a rule for what counts as a non-trivial case.  The runner
(vt.runner) executes laws in worker processes and merges what the per-law
contexts (Ctx) recorded into evidence/<ID>.json.
"""
import base64
import hashlib
import io
import json
import math
import os
import sys
import traceback
from collections import Counter

import numpy as np

VERIF_DIR = os.path.dirname(os.path.dirname(os.path.abspath(__file__)))
REPO_DIR = os.path.abspath(os.environ.get("VERIF_REPO", "/repo"))

EPS32 = float(np.finfo(np.float32).eps)
import re
_NUM = re.compile(r"[-+]?\d[\d.]*(?:e[-+]?\d+)?")


class Violation(Exception):
    """The property does not hold on a generated case."""

    def __init__(self, msg, **details):
        super().__init__(msg)
        self.details = details


class HarnessError(Exception):
    """The harness (not the code under test) is broken: exit 2, never a violation."""


# --------------------------------------------------------------------------- JSON codec

def _enc(o):
    if isinstance(o, np.ndarray):
        buf = io.BytesIO()
        np.save(buf, np.ascontiguousarray(o), allow_pickle=False)
        return {"__nd__": base64.b64encode(buf.getvalue()).decode("ascii"),
                "dtype": str(o.dtype), "shape": list(o.shape)}
    if isinstance(o, (np.integer,)):
        return int(o)
    if isinstance(o, (np.floating,)):
        return _enc(float(o))
    if isinstance(o, (np.bool_,)):
        return bool(o)
    if isinstance(o, (np.complexfloating, complex)):
        return {"__cx__": [float(o.real), float(o.imag)]}
    if isinstance(o, float):
        if math.isnan(o) or math.isinf(o):
            return {"__fl__": repr(o)}
        return o
    if isinstance(o, (int, str, bool)) or o is None:
        return o
    if isinstance(o, tuple):
        return {"__tu__": [_enc(x) for x in o]}
    if isinstance(o, (list,)):
        return [_enc(x) for x in o]
    if isinstance(o, dict):
        return {str(k): _enc(v) for k, v in o.items()}
    if isinstance(o, (bytes, bytearray)):
        return {"__by__": base64.b64encode(bytes(o)).decode("ascii")}
    return {"__repr__": repr(o)}


def _dec(o):
    if isinstance(o, list):
        return [_dec(x) for x in o]
    if isinstance(o, dict):
        if "__nd__" in o:
            return np.load(io.BytesIO(base64.b64decode(o["__nd__"])), allow_pickle=False)
        if "__cx__" in o:
            return complex(o["__cx__"][0], o["__cx__"][1])
        if "__fl__" in o:
            return float(o["__fl__"])
        if "__tu__" in o:
            return tuple(_dec(x) for x in o["__tu__"])
        if "__by__" in o:
            return base64.b64decode(o["__by__"])
        return {k: _dec(v) for k, v in o.items()}
    return o


def dumps(o, **kw):
    return json.dumps(_enc(o), sort_keys=True, **kw)


def loads(s):
    return _dec(json.loads(s))


def case_hash(case):
    return hashlib.blake2b(dumps(case).encode(), digest_size=8).hexdigest()


def summarise(o, limit=24):
    """Human-readable, bounded-size rendering of a case for evidence samples."""
    if isinstance(o, np.ndarray):
        if o.size <= limit:
            return {"array": o.tolist() if o.dtype.kind != "c" else [str(x) for x in o.ravel().tolist()],
                    "dtype": str(o.dtype), "shape": list(o.shape)}
        flat = o.ravel()[:6]
        return {"array_head": [str(x) for x in flat.tolist()], "dtype": str(o.dtype), "shape": list(o.shape),
                "sha": hashlib.blake2b(np.ascontiguousarray(o).tobytes(), digest_size=6).hexdigest()}
    if isinstance(o, (np.integer,)):
        return int(o)
    if isinstance(o, (np.floating, float)):
        f = float(o)
        return f if math.isfinite(f) else repr(f)
    if isinstance(o, (np.bool_,)):
        return bool(o)
    if isinstance(o, (complex, np.complexfloating)):
        return str(complex(o))
    if isinstance(o, (list, tuple)):
        if len(o) > limit:
            return [summarise(x, limit) for x in o[:limit]] + ["... %d more" % (len(o) - limit)]
        return [summarise(x, limit) for x in o]
    if isinstance(o, dict):
        return {str(k): summarise(v, limit) for k, v in o.items()}
    if isinstance(o, (int, str, bool)) or o is None:
        return o
    return repr(o)


# --------------------------------------------------------------------------- context

class Ctx:
    """Per-(law, shard) recorder handed to every law body."""

    MAX_SAMPLES = 3

    def __init__(self, prop, law, tier, seed, shard=0, nshards=1, open_findings=()):
        self.prop, self.law, self.tier = prop, law, tier
        self.seed, self.shard, self.nshards = seed, shard, nshards
        self.open_findings = set(open_findings)
        self.evaluations = 0
        self.nt = set()
        self.nt_bulk = 0            # distinct non-trivial cases counted by enumeration (no hashes kept)
        self.classes = Counter()
        self.samples = []
        self.resid = {}
        self.excluded = Counter()
        self.rejected = Counter()
        self.notes = {}
        self.exhaustive = []

    # -- recording
    def case(self, case, nontrivial=True, classes=()):
        self.evaluations += 1
        for c in classes:
            self.classes[c] += 1
        if nontrivial:
            h = case_hash(case)
            if h not in self.nt:
                self.nt.add(h)
                if len(self.samples) < self.MAX_SAMPLES:
                    self.samples.append({"law": self.law, "case": summarise(case)})

    def bulk(self, evaluations, distinct_nontrivial, sample=None, classes=None, exhaustive=None):
        """Record an enumerated block of cases (all distinct by construction)."""
        self.evaluations += int(evaluations)
        self.nt_bulk += int(distinct_nontrivial)
        if sample is not None and len(self.samples) < self.MAX_SAMPLES:
            self.samples.append({"law": self.law, "case": summarise(sample)})
        for k, v in (classes or {}).items():
            self.classes[k] += v
        if exhaustive:
            self.exhaustive.append(exhaustive)

    def residual(self, name, value, tol):
        value = float(value)
        cur = self.resid.get(name)
        if cur is None or not (value <= cur[0]):
            self.resid[name] = (value, float(tol))

    def is_open(self, finding_id):
        return finding_id in self.open_findings

    def exclude(self, finding_id, n=1):
        self.excluded[finding_id] += n

    def reject(self, reason, n=1):
        self.rejected[reason] += n

    def note(self, key, value):
        self.notes[key] = value

    # -- oracles' comparison helpers (shape-safe; raise Violation, never a harness error)
    def close(self, got, want, tol, what, scale=None, name=None):
        """max|got-want| <= tol*scale  (scale defaults to max(1e-300, max|want|))."""
        got = np.asarray(got)
        want = np.asarray(want)
        if got.shape != want.shape:
            raise Violation("%s: shape %s, expected %s" % (what, got.shape, want.shape))
        if got.size == 0:
            return 0.0
        if scale is None:
            scale = float(np.max(np.abs(want))) if want.size else 1.0
            if not (scale > 0):
                scale = 1.0
        with np.errstate(all="ignore"):
            d = np.abs(got.astype(np.result_type(got.dtype, np.float64), copy=False) - want)
        if not np.all(np.isfinite(d)):
            bad = np.argwhere(~np.isfinite(d))[0]
            raise Violation("%s: non-finite value at index %s (got %r, expected %r)" % (
                what, tuple(int(b) for b in bad), got[tuple(bad)], want[tuple(bad)]))
        err = float(np.max(d)) / scale
        self.residual(name or _NUM.sub("#", what), err, tol)
        if err > tol:
            idx = np.unravel_index(int(np.argmax(d)), d.shape) if d.ndim else ()
            raise Violation("%s: relative error %.3g > tol %.3g at index %s (got %r, expected %r, scale %.3g)" % (
                what, err, tol, tuple(int(i) for i in idx), got[idx] if d.ndim else got[()],
                want[idx] if d.ndim else want[()], scale))
        return err

    def equal(self, got, want, what, nan_ok=False):
        got = np.asarray(got)
        want = np.asarray(want)
        if got.shape != want.shape:
            raise Violation("%s: shape %s, expected %s" % (what, got.shape, want.shape))
        if nan_ok and got.dtype.kind in "fc" and want.dtype.kind in "fc" and np.array_equal(got, want, equal_nan=True):
            return
        if not np.array_equal(got, want):
            bad = np.argwhere(got != want)
            b = tuple(int(i) for i in bad[0]) if bad.size else ()
            raise Violation("%s: not exactly equal at index %s (got %r, expected %r); %d differing entries" % (
                what, b, got[b] if got.ndim else got[()], want[b] if want.ndim else want[()], len(bad)))

    def require(self, cond, what, **details):
        if not cond:
            raise Violation(what, **details)

    def thread_agreement(self, thunks, what, threads=4, rounds=3):
        """thunks: zero-argument callables, each a pure library call on its own private arguments.  Their results in a
        plain sequential run are the reference; the same calls made at the same time from several threads of this
        process must return bit-identical results (a module-level work array or memo shared between calls does not)."""
        import sys
        import threading

        def snap(r):
            items = list(r) if isinstance(r, (tuple, list)) else [r]
            return [np.array(x, copy=True) if isinstance(x, np.ndarray) else x for x in items]

        def same(a, b):
            if len(a) != len(b):
                return False
            for x, y in zip(a, b):
                if isinstance(x, np.ndarray) or isinstance(y, np.ndarray):
                    if not (isinstance(x, np.ndarray) and isinstance(y, np.ndarray) and x.shape == y.shape and x.dtype == y.dtype and np.array_equal(x, y, equal_nan=x.dtype.kind in "fc")):
                        return False
                elif not (x == y or (x != x and y != y)):
                    return False
            return True
        ref = [snap(t()) for t in thunks]
        again = [snap(t()) for t in thunks]
        for i, (a, b) in enumerate(zip(ref, again)):
            if not same(a, b):
                raise Violation("%s: call %d repeated sequentially with equal arguments gives a different result" % (what, i))
        bad, errs = [], []
        barrier = threading.Barrier(threads)

        def worker(k):
            try:
                barrier.wait(timeout=60)
                for r in range(rounds):
                    for j in range(len(thunks)):
                        i = (j + k * max(1, len(thunks) // threads)) % len(thunks)
                        if not same(snap(thunks[i]()), ref[i]):
                            bad.append((k, r, i))
            except BaseException as e:      # noqa: B902
                errs.append(e)
        old = sys.getswitchinterval()
        sys.setswitchinterval(1e-6)
        try:
            ts = [threading.Thread(target=worker, args=(k,)) for k in range(threads)]
            for t in ts:
                t.start()
            for t in ts:
                t.join(600)
        finally:
            sys.setswitchinterval(old)
        if errs:
            raise errs[0]
        if bad:
            raise Violation("%s: %d of %d calls made concurrently from %d threads return something else than the same calls made one after the other (first: call %d in thread %d) - state is shared between calls" % (
                what, len(bad), threads * rounds * len(thunks), threads, bad[0][2], bad[0][0]))

    def fresh_result(self, call, first, what):
        """`first` is what `call()` returned (arrays, or a tuple/list of arrays).  The caller owns it: overwrite every
        writable array in it, call again with equal arguments, and the second result must equal the first as it was
        before the overwrite (a result that is a cached or otherwise shared array fails this)."""
        items = list(first) if isinstance(first, (tuple, list)) else [first]
        saved = [np.array(x, copy=True) if isinstance(x, np.ndarray) else x for x in items]
        for x in items:
            if isinstance(x, np.ndarray) and x.size and x.flags.writeable:
                if x.dtype.kind in "fc":
                    x[...] = x * -3.25 + 7.5
                elif x.dtype.kind in "iu":
                    x[...] = x // 2 + 1
                elif x.dtype.kind == "b":
                    x[...] = ~x
        try:
            again = call()
            again = [np.array(a, copy=True) if isinstance(a, np.ndarray) else a for a in (list(again) if isinstance(again, (tuple, list)) else [again])]
        finally:
            for x, b in zip(items, saved):              # hand the caller's arrays back as they were
                if isinstance(x, np.ndarray) and x.size and x.flags.writeable:
                    x[...] = b
        again = list(again) if isinstance(again, (tuple, list)) else [again]
        for k, (a, b) in enumerate(zip(again, saved)):
            if isinstance(b, np.ndarray):
                if not (np.shape(a) == b.shape and np.array_equal(np.asarray(a), b, equal_nan=b.dtype.kind in "fc")):
                    raise Violation("%s: after the caller overwrote the arrays it got back, an equal call returns a different result (output %d): the returned array is shared hidden state" % (what, k))
        return again

    # -- serialisation for the parent process
    def to_json(self):
        return {
            "law": self.law, "shard": self.shard, "evaluations": self.evaluations,
            "nt": sorted(self.nt), "nt_bulk": self.nt_bulk, "classes": dict(self.classes),
            "samples": self.samples, "resid": {k: list(v) for k, v in self.resid.items()},
            "excluded": dict(self.excluded), "rejected": dict(self.rejected), "notes": self.notes,
            "exhaustive": self.exhaustive,
        }


# --------------------------------------------------------------------------- laws

class Law:
    """name; run(ctx) explores; replay(ctx, case) re-executes one saved case."""

    def __init__(self, name, run, replay=None, shards=None, doc=""):
        self.name, self.run, self.replay = name, run, replay
        self.shards = shards or {"quick": 1, "thorough": 16}
        self.doc = doc


class Failure(Exception):
    """Raised by law runners when the explored body failed; carries the (shrunk) case."""

    def __init__(self, case, exc, tb):
        super().__init__(str(exc))
        self.case, self.exc, self.tb = case, exc, tb


def in_repo_frames(tb):
    """True if any frame of the traceback lies in the code under test."""
    root = os.path.join(REPO_DIR, "aotools")
    for fs in traceback.extract_tb(tb):
        if os.path.abspath(fs.filename).startswith(root):
            return True
    return False


def is_violation(exc):
    if isinstance(exc, HarnessError):
        return False
    if isinstance(exc, (Violation, AssertionError)):
        return True
    return in_repo_frames(exc.__traceback__)


def derive_seed(base, prop, law, shard):
    h = hashlib.blake2b(("%d/%s/%s/%d" % (base, prop, law, shard)).encode(), digest_size=4).digest()
    return int.from_bytes(h, "big")


def given_law(name, strategy, body, examples, shards=None, doc="", max_shrinks_quick=True):
    """A law driven by a Hypothesis strategy producing JSON-able cases.

    examples: {"quick": n, "thorough": n_per_shard}
    """
    def run(ctx):
        import hypothesis
        from hypothesis import HealthCheck, Phase, given, settings
        n = examples[ctx.tier]
        if n <= 0:
            return                      # this law is not part of this tier
        last = {}

        def inner(case):
            try:
                body(ctx, case)
            except BaseException as e:  # noqa: B902 - we re-raise
                if isinstance(e, (hypothesis.errors.HypothesisException, KeyboardInterrupt)) or \
                        type(e).__name__ in ("UnsatisfiedAssumption", "StopTest", "Frozen"):
                    raise
                last["case"], last["exc"] = case, e
                raise

        test = hypothesis.seed(ctx.seed)(
            settings(max_examples=n, database=None, deadline=None, derandomize=False,
                     report_multiple_bugs=False, suppress_health_check=list(HealthCheck),
                     phases=(Phase.explicit, Phase.generate, Phase.shrink),
                     print_blob=False)(given(strategy)(inner)))
        try:
            test()
        except hypothesis.errors.HypothesisException as e:
            if "case" in last and isinstance(e, hypothesis.errors.Flaky) and isinstance(last["exc"], (Violation, AssertionError)):
                # the body is a pure function of the case; if the same case held once and failed once in this process,
                # the code under test remembers earlier calls.  Report the recorded failure.
                v = Violation("%s [outcome for the same case changed between executions in one process: the code under test keeps state between calls]" % last["exc"])
                raise Failure(last["case"], v, last["exc"].__traceback__)
            raise HarnessError("hypothesis: %s: %s" % (type(e).__name__, e))
        except BaseException as e:  # noqa: B902
            if "case" in last:
                raise Failure(last["case"], last["exc"], last["exc"].__traceback__)
            raise

    return Law(name, run, replay=lambda ctx, case: body(ctx, case), shards=shards, doc=doc)


def plain_law(name, cases_fn, body, shards=None, doc=""):
    """A law over an explicit finite list of cases (ladders, enumerations of small grids).

    cases_fn(tier) -> list of cases; the list is split round-robin over shards.
    """
    def run(ctx):
        cases = cases_fn(ctx.tier)
        for i, case in enumerate(cases):
            if i % ctx.nshards != ctx.shard:
                continue
            try:
                body(ctx, case)
            except BaseException as e:  # noqa: B902
                raise Failure(case, e, e.__traceback__)

    return Law(name, run, replay=lambda ctx, case: body(ctx, case),
               shards=shards or {"quick": 1, "thorough": 1}, doc=doc)


def machine_law(name, make_machine, replay_history, examples, steps, shards=None, doc=""):
    """A law over call histories.  make_machine(ctx) -> RuleBasedStateMachine subclass whose
    instances append every executed operation to self.history (JSON-able).  On failure the
    history of the last (shrunk) run is the replayable case; replay_history(ctx, history)
    re-executes it without Hypothesis."""
    def run(ctx):
        import hypothesis
        from hypothesis import HealthCheck, Phase, settings
        from hypothesis.stateful import run_state_machine_as_test
        box = {}
        M = make_machine(ctx, box)
        st = settings(max_examples=examples[ctx.tier], stateful_step_count=steps[ctx.tier], database=None,
                      deadline=None, derandomize=False, report_multiple_bugs=False,
                      suppress_health_check=list(HealthCheck),
                      phases=(Phase.explicit, Phase.generate, Phase.shrink), print_blob=False)
        try:
            run_state_machine_as_test(hypothesis.seed(ctx.seed)(M), settings=st)
        except hypothesis.errors.HypothesisException as e:
            raise HarnessError("hypothesis: %s: %s" % (type(e).__name__, e))
        except BaseException as e:  # noqa: B902
            if "history" in box:
                raise Failure(box["history"], e, e.__traceback__)
            raise

    return Law(name, run, replay=replay_history, shards=shards, doc=doc)


def repo_head():
    try:
        import subprocess
        return subprocess.run(["git", "-C", REPO_DIR, "rev-parse", "HEAD"], capture_output=True,
                              text=True, timeout=10).stdout.strip()
    except Exception:
        return ""
