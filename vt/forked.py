"""Generate unseeded screens in THIS (fresh) process and in children forked from it; print their digests.

usage: python -m vt.forked <children> <warm> <per_child>     (stdout: JSON list of [who, kind, number, digest])
The parent imports the library, makes `warm` rounds of unseeded calls, forks `children` processes which each make
`per_child` rounds, then makes one more round itself.  Run with NUMBA_THREADING_LAYER=workqueue: numba's OpenMP
layer refuses to fork once it has run a parallel kernel (an infinite screen in the parent), which is not what is
being examined."""
import hashlib
import json
import os
import select
import sys
import warnings


def digests(n, first=0):
    import numpy as np
    from aotools.turbulence import phasescreen as ps_, infinitephasescreen as ips
    out = []
    for i in range(first, first + n):
        for kind in ("ft", "ft_sh", "vk", "fried"):
            if kind == "ft":
                a = ps_.ft_phase_screen(0.16, 4, 0.1, 25.0, 0.01)
            elif kind == "ft_sh":
                a = ps_.ft_sh_phase_screen(0.16, 4, 0.1, 25.0, 0.01)
            else:
                o = ips.PhaseScreenVonKarman(3, 0.1, 0.16, 25.0, n_columns=1) if kind == "vk" else ips.PhaseScreenKolmogorov(3, 0.1, 0.16, 25.0, stencil_length_factor=1)
                first_scrn = o.scrn.copy()
                a = np.concatenate([first_scrn, o.add_row()])
            out.append((kind, i, hashlib.blake2b(np.ascontiguousarray(a).tobytes(), digest_size=12).hexdigest()))
    return out


def main():
    sys.path.insert(0, os.path.abspath(os.environ.get("VERIF_REPO", "/repo")))
    warnings.simplefilter("ignore")
    children, warm, per_child = (int(x) for x in sys.argv[1:4])
    got = [("parent",) + t for t in digests(warm)]
    pipes = []
    for c in range(children):
        r, w = os.pipe()
        pid = os.fork()
        if pid == 0:
            try:
                os.close(r)
                os.write(w, json.dumps(digests(per_child)).encode())
            except BaseException:
                import traceback
                os.write(w, json.dumps({"error": traceback.format_exc()[-1500:]}).encode())
            finally:
                os._exit(0)
        os.close(w)
        pipes.append((c, pid, r))
    for c, pid, r in pipes:
        buf = b""
        while True:
            ready, _, _ = select.select([r], [], [], 300)
            if not ready:
                os.kill(pid, 9)
                break
            chunk = os.read(r, 65536)
            if not chunk:
                break
            buf += chunk
        os.close(r)
        os.waitpid(pid, 0)
        res = json.loads(buf) if buf else {"error": "no output (child died)"}
        if isinstance(res, dict):
            sys.stderr.write("forked child %d: %s\n" % (c, res["error"]))
            sys.exit(3)
        got += [("child %d" % c,) + tuple(t) for t in res]
    got += [("parent",) + t for t in digests(1, first=warm)]
    json.dump(got, sys.stdout)


if __name__ == "__main__":
    main()
